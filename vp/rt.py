"""Run-time helpers shared by harness modules (imported inside the worker)."""
import json
import os


def param(default=None):
    """The concrete parameter of this obligation instance (set by the engine)."""
    raw = os.environ.get('VP_PARAM')
    if raw is None or raw == '':
        return default
    return json.loads(raw)


# Known-finding classes: predicates over harness arguments.  The engine runs an
# obligation that lists known classes once with VP_KNOWN_MODE=exclude (inputs in
# any listed class are assumed away: everything else must still hold) and once
# per class with VP_KNOWN_MODE=only:<class> (is the finding still there?).
_KNOWN = {}


def known_class(name):
    def deco(fn):
        _KNOWN[name] = fn
        return fn
    return deco


def admit(names, *args):
    """Precondition helper.  `names` is a list of known-class names."""
    mode = os.environ.get('VP_KNOWN_MODE', 'exclude')
    if mode == 'all':
        return True
    if mode.startswith('only:'):
        return bool(_KNOWN[mode[5:]](*args))
    for n in names:
        if _KNOWN[n](*args):
            return False
    return True
