"""Reference semantics written independently of tdda (small readers)."""


def bracket_match(br, x):
    """Does the Python-re bracket expression `br` ('[...]') match the single character x?
    Handles negation, backslash escapes of single characters, and a-b ranges."""
    if not (len(br) >= 2 and br[0] == '[' and br[-1] == ']'):
        raise ValueError('not a bracket: %r' % br)
    body = br[1:-1]
    neg = False
    i = 0
    if body[:1] == '^':
        neg = True
        i = 1
    items = []
    first = True
    while i < len(body):
        c = body[i]
        if c == '\\' and i + 1 < len(body):
            lit = body[i + 1]
            i += 2
        else:
            lit = c
            i += 1
        if i + 1 < len(body) and body[i] == '-':
            hi = body[i + 1]
            if hi == '\\' and i + 2 < len(body):
                hi = body[i + 2]
                i += 3
            else:
                i += 2
            items.append((lit, hi))
        else:
            items.append((lit, lit))
        first = False
    hit = False
    for lo, hi in items:
        if lo <= x <= hi:
            hit = True
    return hit != neg


def quantifier_range(suffix, piece):
    """Read the quantifier tdda appends to an atomic regex piece.
    Returns (lo, hi) with hi None for unbounded, or None if unreadable."""
    if suffix == '':
        return (1, 1)
    if suffix == piece:
        return (2, 2)
    if suffix == '*':
        return (0, None)
    if suffix == '+':
        return (1, None)
    if suffix == '?':
        return (0, 1)
    if suffix.startswith('{') and suffix.endswith('}'):
        body = suffix[1:-1]
        if ',' in body:
            a, b = body.split(',', 1)
            if a.isdigit() and (b.isdigit() or b == ''):
                return (int(a), int(b) if b else None)
            return None
        if body.isdigit():
            return (int(body), int(body))
    return None


REGEX_META = set('.^$*+?{}[]\\|()')


def unescape_plain(e):
    """Inverse of a per-character regex escape: returns the literal string the
    escaped text denotes, or None if a metacharacter is left bare or an
    alphanumeric is escaped (which would be a character class, not a literal)."""
    out = ''
    i = 0
    while i < len(e):
        if e[i] == '\\':
            if i + 1 >= len(e):
                return None
            if e[i + 1].isalnum():
                return None
            out += e[i + 1]
            i += 2
        else:
            if e[i] in REGEX_META:
                return None
            out += e[i]
            i += 1
    return out


# ---- reference rule for text comparison (C04 / C15) -------------------------------------------------
def text_rule(actual, expected, norm=None, ignore_substrings=(), remove_lines=(), max_perm=0,
              preprocess=None, pattern_equiv=None):
    """The documented rule, written out.  Returns (passes, unexcused) where unexcused is the list of
    (index-in-actual, index-in-expected) pairs, in the ORIGINAL (post-preprocess, post-trailing-drop)
    numbering, that are neither equal after normalisation nor excused by an option.  When the numbers
    of kept lines differ, unexcused is None (everything is 'different')."""
    norm = norm or (lambda s: s)
    if preprocess:
        expected = preprocess(expected)
        actual = preprocess(actual)
    # the comparison's own rule for the final newline: one trailing empty line is dropped on each side
    if actual and len(actual[-1]) == 0:
        actual = actual[:-1]
    if expected and len(expected[-1]) == 0:
        expected = expected[:-1]
    ka = [i for i, x in enumerate(actual) if not any(r in x for r in remove_lines)]
    ke = [i for i, x in enumerate(expected) if not any(r in x for r in remove_lines)]
    if len(ka) != len(ke):
        return False, None
    bad = []
    for i, j in zip(ka, ke):
        x, y = actual[i], expected[j]
        if norm(x) == norm(y):
            continue
        if any(s in y for s in ignore_substrings):
            continue
        if pattern_equiv is not None and pattern_equiv(x, y):
            continue
        bad.append((i, j))
    if not bad:
        return True, []
    if len(bad) <= max_perm and sorted(actual[i] for i, _ in bad) == sorted(expected[j] for _, j in bad):
        return True, bad
    return False, bad


def pattern_equiv_factory(fullmatchers):
    """Declarative reading of ignore_patterns: a ~ e iff a == e, or for some pattern both split as
    l.m.r / l'.m'.r' with m, m' non-empty-or-empty full matches of the pattern and l ~ l', r ~ r'.
    `fullmatchers` are predicates str -> bool saying 'this whole string matches pattern k'."""
    def equiv(a, e, depth=0):
        if a == e:
            return True
        if depth > 3:
            return False
        for fm in fullmatchers:
            for i in range(len(a) + 1):
                for j in range(i, len(a) + 1):
                    if not fm(a[i:j]):
                        continue
                    for p in range(len(e) + 1):
                        for q in range(p, len(e) + 1):
                            if not fm(e[p:q]):
                                continue
                            if (i, j) == (0, len(a)) and (p, q) == (0, len(e)):
                                return True
                            if (j - i) + (q - p) == 0:
                                continue        # two empty matches explain nothing
                            if equiv(a[:i], e[:p], depth + 1) and equiv(a[j:], e[q:], depth + 1):
                                return True
        return False
    return equiv
