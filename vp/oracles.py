"""Reference semantics written independently of tdda (small readers)."""


def bracket_match(br, x):
    """Does the Python-re bracket expression `br` ('[...]') match the single character x?
    Handles negation, backslash escapes of single characters, and a-b ranges."""
    if not (len(br) >= 2 and br[0] == '[' and br[-1] == ']'):
        raise ValueError('not a bracket: %r' % br)
    body = br[1:-1]
    neg = False
    i = 0
    if body[:1] == '^':
        neg = True
        i = 1
    items = []
    first = True
    while i < len(body):
        c = body[i]
        if c == '\\' and i + 1 < len(body):
            lit = body[i + 1]
            i += 2
        else:
            lit = c
            i += 1
        if i + 1 < len(body) and body[i] == '-':
            hi = body[i + 1]
            if hi == '\\' and i + 2 < len(body):
                hi = body[i + 2]
                i += 3
            else:
                i += 2
            items.append((lit, hi))
        else:
            items.append((lit, lit))
        first = False
    hit = False
    for lo, hi in items:
        if lo <= x <= hi:
            hit = True
    return hit != neg


def quantifier_range(suffix, piece):
    """Read the quantifier tdda appends to an atomic regex piece.
    Returns (lo, hi) with hi None for unbounded, or None if unreadable."""
    if suffix == '':
        return (1, 1)
    if suffix == piece:
        return (2, 2)
    if suffix == '*':
        return (0, None)
    if suffix == '+':
        return (1, None)
    if suffix == '?':
        return (0, 1)
    if suffix.startswith('{') and suffix.endswith('}'):
        body = suffix[1:-1]
        if ',' in body:
            a, b = body.split(',', 1)
            if a.isdigit() and (b.isdigit() or b == ''):
                return (int(a), int(b) if b else None)
            return None
        if body.isdigit():
            return (int(body), int(body))
    return None


REGEX_META = set('.^$*+?{}[]\\|()')


def unescape_plain(e):
    """Inverse of a per-character regex escape: returns the literal string the
    escaped text denotes, or None if a metacharacter is left bare or an
    alphanumeric is escaped (which would be a character class, not a literal)."""
    out = ''
    i = 0
    while i < len(e):
        if e[i] == '\\':
            if i + 1 >= len(e):
                return None
            if e[i + 1].isalnum():
                return None
            out += e[i + 1]
            i += 2
        else:
            if e[i] in REGEX_META:
                return None
            out += e[i]
            i += 1
    return out
