"""Engine: run the obligations of one property, replay counterexamples, write evidence.

    python -m vp.run C19 quick
    python -m vp.run --replay work/replays/C19_xxx.py

Exit 0: nothing violated (obligations may still be inconclusive - listed).
Exit 1: a replayed counterexample not covered by known_findings.json:
        prints  VIOLATION property=<id> replay=<path>
Exit 3: harness error (vacuous obligation, unreproducible counterexample, ...).
"""
import concurrent.futures as cf
import importlib
import json
import os
import re
import subprocess
import sys
import time

VERIF = os.path.dirname(os.path.dirname(os.path.abspath(__file__)))
REPO = os.environ.get('VERIF_REPO', '/repo')
PY = os.path.join(VERIF, '.venv', 'bin', 'python')
WORK = os.environ.get('VERIF_WORK_DIR') or os.path.join(VERIF, 'work')
NPROC = int(os.environ.get('VERIF_JOBS', '16'))


def worker_env(ob, known_mode=None):
    env = dict(os.environ)
    env['PYTHONPATH'] = REPO + os.pathsep + VERIF
    env['VERIF_REPO'] = REPO
    env['PYTHONDONTWRITEBYTECODE'] = '1'
    env['PYTHONHASHSEED'] = '0'
    env['TDDA_TDDA_VERIF'] = '1'
    env['VERIF_TIER'] = os.environ.get('VP_CURRENT_TIER', env.get('VERIF_TIER', 'quick'))
    env.pop('VP_PARAM', None)
    if ob.param is not None:
        env['VP_PARAM'] = json.dumps(ob.param)
    if known_mode:
        env['VP_KNOWN_MODE'] = known_mode
    else:
        env.pop('VP_KNOWN_MODE', None)
    return env


def run_worker(modname, ob, mode, timeout=None, expr=None, known_mode=None, fn=None):
    cmd = [PY, '-m', 'vp.ch_worker', modname, fn or ob.fn, '--mode', mode]
    if timeout:
        cmd += ['--timeout', str(timeout)]
    if expr is not None:
        cmd += ['--expr', expr]
    hard = (timeout or 60) * 1.6 + 60
    t0 = time.time()
    try:
        p = subprocess.run(cmd, env=worker_env(ob, known_mode), cwd=VERIF, capture_output=True,
                           text=True, timeout=hard)
    except subprocess.TimeoutExpired:
        return {'status': 'inconclusive', 'message': 'hard timeout %.0fs' % hard,
                'wall_s': round(time.time() - t0, 1)}
    m = re.search(r'@@RESULT@@(.*)$', p.stdout, re.S)
    if not m:
        return {'status': 'harness_error',
                'message': 'worker died rc=%s: %s' % (p.returncode, (p.stderr or p.stdout)[-1500:])}
    out = json.loads(m.group(1).strip().splitlines()[0])
    out.setdefault('wall_s', round(time.time() - t0, 3))
    return out


def load_known():
    path = os.path.join(VERIF, 'known_findings.json')
    if not os.path.exists(path):
        return {}
    with open(path) as f:
        d = json.load(f)
    return {k['class']: k for k in d.get('findings', [])}


def write_replay(prop, modname, ob, call, lift):
    os.makedirs(os.path.join(WORK, 'replays'), exist_ok=True)
    safe = re.sub(r'[^A-Za-z0-9_.-]+', '_', ob.oid)[:80]
    path = os.path.join(WORK, 'replays', '%s_%s.py' % (prop, safe))
    target = call
    if lift:
        target = re.sub(r'^\s*%s\(' % re.escape(ob.fn), lift + '(', call)
    with open(path, 'w') as f:
        f.write('''# Replay of a counterexample for %(prop)s obligation %(oid)s
# %(title)s
# run:  /verif/.venv/bin/python %(path)s     (exit 1 + AssertionError = violation reproduced)
import os, sys
os.environ['VP_KNOWN_MODE'] = 'all'
os.environ['TDDA_TDDA_VERIF'] = '1'
%(param)s
sys.path[:0] = [os.environ.get('VERIF_REPO', '/repo'), %(verif)r]
import %(mod)s as H
ns = dict(vars(H)); ns.setdefault('nan', float('nan')); ns.setdefault('inf', float('inf'))
ok = eval(%(target)r, ns)    # an exception here is the violation too
assert ok, 'property %(prop)s violated by %(target)s'
print('held')
''' % dict(prop=prop, oid=ob.oid, title=ob.title, path=path, verif=VERIF, mod=modname,
           target=target,
           param=('os.environ["VP_PARAM"] = %r' % json.dumps(ob.param)) if ob.param is not None
           else ''))
    return path


def main(argv):
    if argv and argv[0] == '--replay':
        env = dict(os.environ)
        env['PYTHONPATH'] = REPO + os.pathsep + VERIF
        r = subprocess.run([PY, argv[1]], env=env)
        return 1 if r.returncode else 0
    prop, tier = argv[0], (argv[1] if len(argv) > 1 else os.environ.get('VERIF_TIER', 'quick'))
    seed = int(os.environ.get('VERIF_SEED', '0'))
    os.environ['VP_CURRENT_TIER'] = tier
    only = argv[2] if len(argv) > 2 else None
    if only and not os.environ.get('VERIF_EVIDENCE_DIR'):
        # a filtered run is a development aid: its partial evidence must not replace the property's evidence file
        os.environ['VERIF_EVIDENCE_DIR'] = os.path.join(WORK, 'partial_evidence')
    if not os.path.exists(PY):
        subprocess.run([os.path.join(VERIF, 'setup.sh')], check=True)
    sys.path[:0] = [REPO, VERIF]
    os.environ.setdefault('VERIF_REPO', REPO)
    modname = 'vp.harness.%s' % prop
    # import only to read OBLIGATIONS / KNOWN metadata (cheap: harness modules import tdda lazily
    # where they can, but importing is fine too)
    t_start = time.time()
    spec_proc = subprocess.run(
        [PY, '-c', 'import json,dataclasses,importlib;m=importlib.import_module(%r);'
         'print("@@OBS@@"+json.dumps({"obs":[dataclasses.asdict(o) for o in m.OBLIGATIONS],'
         '"assumptions":getattr(m,"ASSUMPTIONS",[]),"outside":getattr(m,"OUTSIDE",[]),'
         '"preflight":getattr(m,"PREFLIGHT",[])}))' % modname],
        env={**os.environ, 'PYTHONPATH': REPO + os.pathsep + VERIF, 'VERIF_REPO': REPO,
             'PYTHONDONTWRITEBYTECODE': '1'},
        cwd=VERIF, capture_output=True, text=True)
    mm = re.search(r'@@OBS@@(.*)', spec_proc.stdout)
    if not mm:
        print('HARNESS-ERROR property=%s cannot import harness: %s' % (prop, spec_proc.stderr[-2000:]))
        write_evidence(prop, tier, seed, [], {}, time.time() - t_start, 0, ['harness import failed'], [])
        return 3
    from vp.ob import Ob
    meta = json.loads(mm.group(1))
    obs = [Ob(**d) for d in meta['obs']]
    if tier == 'quick':
        obs = [o for o in obs if o.tier in ('quick', 'quickonly')]
    else:
        obs = [o for o in obs if o.tier in ('quick', 'thorough')]
    if only:
        obs = [o for o in obs if only in o.oid]
    # per-obligation budget cap (seconds): a thorough run of one property stays within about an hour on 16 cores;
    # an obligation that does not finish inside it is reported inconclusive, never as held
    cap = int(os.environ.get('VERIF_TIMEOUT_CAP', '1500'))
    for o in obs:
        if o.timeout and o.timeout > cap:
            o.timeout = cap
    known = load_known()

    # ---- phase 0: preflight (conformance of environment doubles against the real libraries) -------------
    preflight = []
    pre_errors = []
    if meta.get('preflight') and not only:
        dummy = Ob('pre', 'preflight', '', '')
        for spec_ in meta['preflight']:
            pm, pf = spec_.split(':')
            r = run_worker(pm, dummy, 'z3', timeout=600, fn=pf)
            preflight.append({'check': spec_, 'status': r.get('status'), 'what': r.get('what'),
                              'message': r.get('message'), 'wall_s': r.get('wall_s')})
            if r.get('status') != 'ok':
                if 'DoubleUnsupported' in (r.get('message') or ''):
                    preflight[-1]['status'] = 'unsupported'
                else:
                    pre_errors.append('preflight %s failed: %s' % (spec_, r.get('message')))

    # ---- phase 1: discharge ------------------------------------------------
    jobs = []   # (key, ob, kind, kwargs)
    for ob in obs:
        if ob.engine == 'z3':
            jobs.append(((ob.oid, 'main'), ob, dict(mode='z3', timeout=ob.timeout)))
            continue
        km = 'exclude' if ob.known else None
        jobs.append(((ob.oid, 'main'), ob, dict(mode='check', timeout=ob.timeout, known_mode=km)))
        if ob.twin:
            jobs.append(((ob.oid, 'twin'), ob, dict(mode='twin', timeout=min(ob.timeout, 60), known_mode=km)))
        for k in ob.known:
            jobs.append(((ob.oid, 'only:' + k), ob,
                         dict(mode='check', timeout=min(ob.timeout, 60), known_mode='only:' + k)))
    jobs.sort(key=lambda j: -(j[2].get('timeout') or 0))
    res = {}
    with cf.ThreadPoolExecutor(NPROC) as ex:
        futs = {ex.submit(run_worker, modname, ob, **kw): key for key, ob, kw in jobs}
        for fu in cf.as_completed(futs):
            res[futs[fu]] = fu.result()

    # ---- phase 2: replay counterexamples, profile reachability witnesses ----
    byid = {o.oid: o for o in obs}
    rjobs = []
    for (oid, kind), r in res.items():
        ob = byid[oid]
        if r.get('status') == 'counterexample' and r.get('call'):
            if kind == 'twin':
                rjobs.append(((oid, kind, 'profile'), ob, dict(mode='profile', expr=r['call'], known_mode='all')))
            else:
                rjobs.append(((oid, kind, 'replay'), ob, dict(mode='replay', expr=r['call'], known_mode='all',
                                                              fn=r.get('replay_fn'))))
                if ob.lift:
                    lexpr = re.sub(r'^\s*%s\(' % re.escape(r.get('replay_fn') or ob.fn), ob.lift + '(', r['call'])
                    rjobs.append(((oid, kind, 'lift'), ob, dict(mode='replay', expr=lexpr, known_mode='all',
                                                                fn=ob.lift)))
    rres = {}
    with cf.ThreadPoolExecutor(NPROC) as ex:
        futs = {ex.submit(run_worker, modname, ob, timeout=120, **kw): key for key, ob, kw in rjobs}
        for fu in cf.as_completed(futs):
            rres[futs[fu]] = fu.result()

    # ---- classify -----------------------------------------------------------
    violations, harness_errors, known_lines, notes = [], list(pre_errors), [], []
    known_hits = {}
    functions = set()
    rows = []
    total_paths = 0
    solver_time = 0.0
    queries = 0
    discharged = nontrivial = 0
    for ob in obs:
        main_r = res[(ob.oid, 'main')]
        twin_r = res.get((ob.oid, 'twin'))
        total_paths += int(main_r.get('paths', 0)) + int((twin_r or {}).get('paths', 0))
        queries += int(main_r.get('queries', main_r.get('paths', 0)))
        solver_time += float(main_r.get('cpu_s', main_r.get('wall_s', 0)) or 0)
        row = {'obligation': ob.oid, 'statement': ob.title, 'bounds': ob.bounds, 'engine': ob.engine,
               'status': main_r.get('status'), 'paths': main_r.get('paths'),
               'queries': main_r.get('queries'), 'time_s': main_r.get('cpu_s', main_r.get('wall_s')),
               'timeout_s': ob.timeout}
        if ob.stubs:
            row['stubs'] = ob.stubs
        if main_r.get('detail'):
            row['detail'] = main_r['detail']
        st = main_r.get('status')
        if st == 'harness_error':
            harness_errors.append('%s: %s' % (ob.oid, main_r.get('message')))
            row['message'] = main_r.get('message')
        # vacuity
        reach = None
        if ob.engine == 'z3':
            reach = main_r.get('reachable', True)
            for f in main_r.get('functions', []):
                functions.add(f)
        elif twin_r is not None:
            if twin_r.get('status') == 'counterexample':
                reach = True
                pr = rres.get((ob.oid, 'twin', 'profile'))
                if pr and pr.get('functions'):
                    functions.update(pr['functions'])
                row['witness'] = twin_r.get('call')
            elif twin_r.get('status') == 'inconclusive' and twin_r.get('ch_state') != 'pre_unsat':
                reach = None
                notes.append('%s: reachability twin undecided (%s)' % (ob.oid, twin_r.get('message')))
            else:
                reach = False
                harness_errors.append('%s: vacuous - reachability twin came back %s (%s)'
                                      % (ob.oid, twin_r.get('status'), twin_r.get('message')))
        else:
            reach = True
        row['reachable'] = reach
        if st == 'discharged':
            discharged += 1
            if reach:
                nontrivial += 1
        elif st == 'inconclusive':
            notes.append('%s: inconclusive (%s)' % (ob.oid, main_r.get('message')))
            row['message'] = main_r.get('message')
        elif st == 'counterexample':
            row['counterexample'] = main_r.get('call')
            rp = rres.get((ob.oid, 'main', 'replay'), {})
            lf = rres.get((ob.oid, 'main', 'lift')) if ob.lift else None
            row['replay'] = rp.get('how')
            if rp.get('status') == 'unsupported':
                # the code under test used a facility the environment double does not model: undecided
                row['status'] = 'inconclusive'
                notes.append('%s: inconclusive - %s' % (ob.oid, rp.get('how')))
            elif rp.get('status') != 'reproduced':
                harness_errors.append('%s: counterexample %s does not reproduce concretely (%s)'
                                      % (ob.oid, main_r.get('call'), rp.get('how') or rp.get('message')))
            elif lf is not None and lf.get('status') != 'reproduced':
                harness_errors.append('%s: counterexample %s reproduces in the harness but not through '
                                      'the public API (%s): double/lemma precondition unfaithful'
                                      % (ob.oid, main_r.get('call'), lf.get('how') or lf.get('message')))
                row['lift'] = lf.get('how') or lf.get('message')
            else:
                if lf is not None:
                    row['lift'] = lf.get('how')
                path = write_replay(prop, modname, ob, main_r['call'], ob.lift)
                violations.append((ob, main_r['call'], path, rp.get('how')))
                row['replay_file'] = path
        # known classes
        for k in ob.known:
            kr = res[(ob.oid, 'only:' + k)]
            total_paths += int(kr.get('paths', 0))
            krow = {'class': k, 'status': kr.get('status'), 'counterexample': kr.get('call')}
            if kr.get('status') == 'counterexample':
                rp = rres.get((ob.oid, 'only:' + k, 'replay'), {})
                lf = rres.get((ob.oid, 'only:' + k, 'lift')) if ob.lift else None
                ok = rp.get('status') == 'reproduced' and (lf is None or lf.get('status') == 'reproduced')
                krow['replay'] = rp.get('how')
                if lf is not None:
                    krow['lift'] = lf.get('how') or lf.get('message')
                if not ok:
                    harness_errors.append('%s: known-class %s counterexample %s does not reproduce'
                                          % (ob.oid, k, kr.get('call')))
                elif k in known:
                    known_hits.setdefault(k, []).append((ob.oid, kr.get('call')))
                else:
                    path = write_replay(prop, modname, ob, kr['call'], ob.lift)
                    violations.append((ob, kr['call'], path, rp.get('how')))
            elif kr.get('status') == 'discharged':
                notes.append('%s: known class %s no longer fails (repaired?)' % (ob.oid, k))
            else:
                notes.append('%s: known class %s undecided (%s)' % (ob.oid, k, kr.get('message')))
            row.setdefault('known_classes', []).append(krow)
        rows.append(row)

    for k, hits in sorted(known_hits.items()):
        known_lines.append('KNOWN-FINDING: property=%s %s [class %s; re-confirmed by %d obligation(s), e.g. %s %s]'
                           % (prop, known[k]['what'], k, len(hits), hits[0][0], hits[0][1]))
    wall = time.time() - t_start
    assumptions = list(meta.get('assumptions', []))
    extra = {
        'obligations': len(obs), 'discharged': discharged,
        'inconclusive': [r['obligation'] for r in rows if r['status'] == 'inconclusive'],
        'queries': queries, 'solver_time_s': round(solver_time, 2),
        'functions_encoded': sorted(functions),
        'outside_the_claim': meta.get('outside', []),
        'known_findings_reconfirmed': known_lines,
        'doubles_conformance': preflight,
        'notes': notes, 'harness_errors': harness_errors,
    }
    write_evidence(prop, tier, seed, rows, extra, wall, len(violations), assumptions,
                   total=(total_paths, nontrivial))
    for ln in known_lines:
        print(ln)
    for n in notes:
        print('NOTE: ' + n)
    print('%s %s: %d obligations, %d discharged (%d with reachability witness), %d inconclusive, '
          '%d paths/queries, %.1fs wall' % (prop, tier, len(obs), discharged, nontrivial,
                                           len(extra['inconclusive']), total_paths, wall))
    rc = 0
    if harness_errors:
        for h in harness_errors:
            print('HARNESS-ERROR property=%s %s' % (prop, h))
        rc = 3
    if violations:
        seen = set()
        for ob, call, path, how in violations:
            print('counterexample %s: %s -> %s' % (ob.oid, call, how))
            if path not in seen:
                print('VIOLATION property=%s replay=%s' % (prop, path))
                seen.add(path)
        rc = 1
    return rc


def write_evidence(prop, tier, seed, rows, extra, wall, nviol, assumptions, total=(0, 0)):
    evdir = os.environ.get('VERIF_EVIDENCE_DIR') or os.path.join(VERIF, 'evidence')
    os.makedirs(evdir, exist_ok=True)
    cov = {
        'evaluations': int(total[0]),
        'distinct_nontrivial': int(total[1]),
        'rule': 'evaluations = execution paths CrossHair explored and decided with z3 (each re-executes the '
                'real tdda code on symbolic inputs) plus direct z3 queries; distinct_nontrivial = obligations '
                'discharged over all paths/unsat whose reachability twin (same preconditions, post: False) '
                'was refuted, i.e. non-vacuous',
        'samples': rows,
        'exhaustive': False,
    }
    cov.update(extra)
    ev = {'property_id': prop, 'tier': tier if tier in ('quick', 'thorough') else 'quick', 'seed': seed,
          'level': 'model_checking', 'coverage': cov, 'assumptions': assumptions,
          'wall_s': round(wall, 2), 'violations': nviol}
    with open(os.path.join(evdir, prop + '.json'), 'w') as f:
        json.dump(ev, f, indent=1, default=str)


if __name__ == '__main__':
    sys.exit(main(sys.argv[1:]))
