"""In-memory filesystem double, patched into the namespace of the tdda module under test.

Contract (what tdda relies on and nothing more):
 * files: dict path -> str (text) or bytes; directories: set of paths.
 * open(path, mode, encoding=...): 'r' text read performs universal-newline translation
   (\\r\\n and \\r -> \\n) like Python's default newline=None; 'w' truncates and, on close,
   stores what was written (text writes are stored verbatim: os.linesep is '\\n' on POSIX);
   'rb'/'wb' handle bytes verbatim. Opening a missing file for reading raises FileNotFoundError
   (an IOError/OSError), opening for writing in a missing directory is allowed (directories are
   not enforced) - a leniency that can only hide "directory missing" errors, which no property
   here is about.
 * every create/write/delete is recorded in `log` as (op, path).
 * os.path.exists/isdir, os.remove/unlink, os.listdir, os.makedirs/mkdir, shutil.rmtree/copyfile.
Encodings are not modelled: text is kept as str; the encoding argument is recorded in `encodings`.
"""
import os as _os


class _FakeFile:
    def __init__(self, fs, path, mode, encoding):
        self.fs, self.path, self.mode = fs, path, mode
        self.binary = 'b' in mode
        self.closed = False
        if 'w' in mode:
            self.buf = b'' if self.binary else ''
            fs.files[path] = self.buf          # truncation is immediate
            fs.log.append(('write', path))
            fs.encodings[path] = ('w', encoding)
        else:
            data = fs.files[path]
            if not self.binary:
                if isinstance(data, bytes):
                    data = data.decode('latin-1')
                data = data.replace('\r\n', '\n').replace('\r', '\n')
                fs.encodings.setdefault(path, None)
                fs.read_encodings.append((path, encoding))
            elif isinstance(data, str):
                data = data.encode('latin-1')
            self.buf = data
            self.pos = 0

    def __enter__(self):
        return self

    def __exit__(self, *a):
        self.close()
        return False

    def close(self):
        if not self.closed and 'w' in self.mode:
            self.fs.files[self.path] = self.buf
        self.closed = True

    def read(self):
        out = self.buf[self.pos:]
        self.pos = len(self.buf)
        return out

    def readlines(self):
        text = self.read()
        out = []
        cur = ''
        for ch in text:
            cur += ch
            if ch == '\n':
                out.append(cur)
                cur = ''
        if cur:
            out.append(cur)
        return out

    def __iter__(self):
        return iter(self.readlines())

    def write(self, s):
        self.buf += s
        return len(s)


class FakeFS:
    def __init__(self, files=None, dirs=None):
        self.files = dict(files or {})
        self.dirs = set(dirs or [])
        self.log = []
        self.encodings = {}
        self.read_encodings = []

    # -- builtins.open --
    def open(self, path, mode='r', encoding=None, **kw):
        if 'w' not in mode and 'a' not in mode and path not in self.files:
            raise FileNotFoundError(2, 'No such file or directory: %r' % (path,))
        return _FakeFile(self, path, mode, encoding)

    # -- os.path --
    def exists(self, p):
        return p in self.files or p in self.dirs

    def isdir(self, p):
        return p in self.dirs

    def isfile(self, p):
        return p in self.files

    # -- os --
    def remove(self, p):
        if p not in self.files:
            raise FileNotFoundError(2, 'No such file: %r' % (p,))
        del self.files[p]
        self.log.append(('delete', p))

    def listdir(self, d):
        pre = d.rstrip('/') + '/'
        names = set()
        for p in list(self.files) + list(self.dirs):
            if p.startswith(pre) and p != pre:
                names.add(p[len(pre):].split('/')[0])
        return sorted(names)

    def makedirs(self, d, exist_ok=False):
        self.dirs.add(d)
        self.log.append(('mkdir', d))

    def rmtree(self, d, ignore_errors=False):
        pre = d.rstrip('/') + '/'
        for p in list(self.files):
            if p.startswith(pre):
                del self.files[p]
                self.log.append(('delete', p))
        for p in list(self.dirs):
            if p == d or p.startswith(pre):
                self.dirs.discard(p)
        self.log.append(('rmtree', d))

    def copyfile(self, src, dst):
        if src not in self.files:
            raise FileNotFoundError(2, 'No such file: %r' % (src,))
        self.files[dst] = self.files[src]
        self.log.append(('write', dst))

    def written(self):
        return [p for op, p in self.log if op == 'write']

    def deleted(self):
        return [p for op, p in self.log if op in ('delete', 'rmtree')]


class _FakePath:
    def __init__(self, fs):
        self._fs = fs

    def __getattr__(self, n):
        return getattr(_os.path, n)

    def exists(self, p):
        return self._fs.exists(p)

    def isdir(self, p):
        return self._fs.isdir(p)

    def isfile(self, p):
        return self._fs.isfile(p)

    def abspath(self, p):
        return p if p.startswith('/') else '/cwd/' + p

    def expanduser(self, p):
        return p


class FakeOS:
    """stands in for the `os` module inside one tdda module"""
    def __init__(self, fs):
        self._fs = fs
        self.path = _FakePath(fs)
        self.name = 'posix'
        self.sep = '/'
        self.linesep = '\n'
        self.environ = {}

    def remove(self, p):
        return self._fs.remove(p)

    unlink = remove

    def listdir(self, d):
        return self._fs.listdir(d)

    def makedirs(self, d, exist_ok=False):
        return self._fs.makedirs(d)

    def mkdir(self, d):
        return self._fs.makedirs(d)

    def getcwd(self):
        return '/cwd'

    def stat(self, p):
        if not self._fs.exists(p):
            raise FileNotFoundError(2, 'No such file or directory: %r' % (p,))

        class _St:
            st_ctime = 2.0      # everything in the fake file system is "new" relative to an empty snapshot
            st_mtime = 2.0
        return _St()


class FakeGlob:
    """stands in for the `glob` module: shell-style matching of one pattern over the files AND directories of the
    fake file system (as glob.glob does), `*` and `?` not crossing a path separator"""
    def __init__(self, fs):
        self._fs = fs

    def glob(self, pattern):
        import fnmatch
        out = []
        for p in sorted(set(self._fs.files) | set(self._fs.dirs)):
            if p.count('/') == pattern.count('/') and fnmatch.fnmatchcase(p, pattern):
                out.append(p)
        return out


class FakeShutil:
    def __init__(self, fs):
        self._fs = fs

    def rmtree(self, d, ignore_errors=False):
        return self._fs.rmtree(d)

    def copyfile(self, a, b):
        return self._fs.copyfile(a, b)

    def copy(self, a, b):
        return self._fs.copyfile(a, b)


class patched:
    """context manager: patch open/os/shutil into the namespaces of the given modules"""
    def __init__(self, fs, *modules):
        self.fs = fs
        self.modules = modules
        self.saved = []

    def __enter__(self):
        fos = FakeOS(self.fs)
        fsh = FakeShutil(self.fs)
        for m in self.modules:
            for name, val in (('open', self.fs.open), ('os', fos), ('shutil', fsh)):
                had = name in m.__dict__
                if name == 'open' or had:
                    self.saved.append((m, name, had, m.__dict__.get(name)))
                    m.__dict__[name] = val
        return self.fs

    def __exit__(self, *a):
        for m, name, had, old in reversed(self.saved):
            if had:
                m.__dict__[name] = old
            else:
                del m.__dict__[name]
        return False
