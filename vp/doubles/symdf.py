"""Symbolic stand-in for the few pandas/numpy facilities tdda's constraint code uses.

A SymSeries is a Python list of values plus a REAL numpy dtype object (so tdda's own dtype
classification code runs unchanged).  Null is None.  Values may be CrossHair symbolic
ints/floats/bools/strs; all methods are written with plain Python operators so that they are
executed symbolically.

Contract (checked against real pandas on seeded concrete frames by vp/doubles/conformance.py):
  min/max            smallest/largest non-null value, None when there is none
  count              number of non-null values
  nunique            number of distinct non-null values
  unique             distinct values in first-seen order (nulls included once)
  dropna             non-null values
  isnull/notnull     element-wise
  sum                sum of non-null values (True counts 1)
  astype(bool|int|float|str|'O')   element-wise conversion of non-null values
  comparisons, ==    element-wise; a null operand gives False (pandas: NaN compares False)
  | & ~              element-wise boolean
  isin               membership (null is never a member)
  str.len            length of each non-null string (null stays null)
  duplicated(keep=False)  on a frame column: True for every member of a group of equal values
                     (pandas treats nulls as equal to each other there)
SymFrame: ordered columns of equal length; df[c], df[[..]], df[mask], df[c] = v, list(df), len,
          insert, drop(columns, axis=1), sum(axis=1), isnull(), index (copyable, named), select_dtypes.
"""
import numpy as np

OBJ = np.dtype('O')
BOOL = np.dtype(bool)
INT = np.dtype('int64')
FLOAT = np.dtype('float64')
DATE = np.dtype('datetime64[ns]')


class DoubleUnsupported(AttributeError):
    """the code under test used a pandas/numpy facility this double does not model: the obligation cannot be
    decided with the double (inconclusive) - it is NOT evidence of a violation"""


class _Unsupported(type):
    def __getattr__(cls, name):
        raise DoubleUnsupported('the pandas/numpy double has no %s.%s' % (cls.__name__, name))


def isnull_scalar(v):
    return v is None


class SymIndex:
    def __init__(self, n, name=None):
        self.n = n
        self.name = name

    def copy(self):
        return SymIndex(self.n, self.name)

    def __len__(self):
        return self.n


class _StrAcc:
    def __init__(self, s):
        self.s = s

    def len(self):
        return SymSeries([None if v is None else len(v) for v in self.s.vals], FLOAT)

    def replace(self, a, b, regex=False):
        return SymSeries([None if v is None else v.replace(a, b) for v in self.s.vals], OBJ)


class SymSeries:
    def __init__(self, vals, dtype):
        self.vals = list(vals)
        self.dtype = dtype

    def __iter__(self):
        return iter(self.vals)

    def __len__(self):
        return len(self.vals)

    def _nn(self):
        return [v for v in self.vals if v is not None]

    def dropna(self):
        return SymSeries(self._nn(), self.dtype)

    def min(self):
        nn = self._nn()
        if not nn:
            return None
        m = nn[0]
        for v in nn[1:]:
            if v < m:
                m = v
        return m

    def max(self):
        nn = self._nn()
        if not nn:
            return None
        m = nn[0]
        for v in nn[1:]:
            if v > m:
                m = v
        return m

    def count(self):
        return len(self._nn())

    def _distinct(self, vals):
        out = []
        for v in vals:
            dup = False
            for w in out:
                if (v is None and w is None) or (v is not None and w is not None and v == w):
                    dup = True
                    break
            if not dup:
                out.append(v)
        return out

    def nunique(self):
        return len(self._distinct(self._nn()))

    def unique(self):
        return self._distinct(self.vals)

    def isnull(self):
        return SymSeries([v is None for v in self.vals], BOOL)

    def notnull(self):
        return SymSeries([v is not None for v in self.vals], BOOL)

    def sum(self):
        t = 0
        for v in self.vals:
            if v is not None:
                t = t + (1 if v is True else 0 if v is False else v)
        return t

    def astype(self, t):
        if t is bool or t == 'bool' or t == BOOL:
            return SymSeries([bool(v) for v in self.vals], BOOL)     # pandas: a null in an object column is truthy-nan; callers only do this on null-free columns
        if t is int or t == 'int' or t == INT:
            return SymSeries([None if v is None else int(v) for v in self.vals], INT)
        if t is float or t == 'float' or t == FLOAT:
            return SymSeries([None if v is None else float(v) for v in self.vals], FLOAT)
        if t is str:
            return SymSeries([None if v is None else str(v) for v in self.vals], OBJ)
        if t == 'O' or t == OBJ:
            return SymSeries(self.vals, OBJ)
        raise NotImplementedError('astype(%r)' % (t,))

    def fillna(self, value):
        return SymSeries([value if v is None else v for v in self.vals], self.dtype)

    @property
    def values(self):
        return self         # the array view: the same per-record values (what np.where hands back is also a SymSeries)

    def _cmp(self, other, f):
        if isinstance(other, SymSeries):
            return SymSeries([False if (v is None or o is None) else f(v, o)
                              for v, o in zip(self.vals, other.vals)], BOOL)
        return SymSeries([False if v is None else f(v, other) for v in self.vals], BOOL)

    def __ge__(self, o):
        return self._cmp(o, lambda a, b: a >= b)

    def __gt__(self, o):
        return self._cmp(o, lambda a, b: a > b)

    def __le__(self, o):
        return self._cmp(o, lambda a, b: a <= b)

    def __lt__(self, o):
        return self._cmp(o, lambda a, b: a < b)

    def __eq__(self, o):
        return self._cmp(o, lambda a, b: a == b)

    def __ne__(self, o):
        r = self._cmp(o, lambda a, b: a == b)
        return SymSeries([not v for v in r.vals], BOOL)

    __hash__ = None

    def __or__(self, o):
        return SymSeries([bool(a) or bool(b) for a, b in zip(self.vals, o.vals)], BOOL)

    def __and__(self, o):
        return SymSeries([bool(a) and bool(b) for a, b in zip(self.vals, o.vals)], BOOL)

    def __invert__(self):
        return SymSeries([not bool(a) for a in self.vals], BOOL)

    def __sub__(self, o):
        ov = o.vals if isinstance(o, SymSeries) else [o] * len(self.vals)
        return SymSeries([a - b for a, b in zip(self.vals, ov)], FLOAT)

    def __rsub__(self, o):
        return SymSeries([o - a for a in self.vals], FLOAT)

    def isin(self, values):
        vals = list(values)
        out = []
        for v in self.vals:
            hit = False
            if v is not None:
                for w in vals:
                    if w is not None and v == w:
                        hit = True
                        break
            out.append(hit)
        return SymSeries(out, BOOL)

    @property
    def str(self):
        return _StrAcc(self)

    def tolist(self):
        return list(self.vals)

    def __getattr__(self, name):
        if name.startswith('__'):
            raise AttributeError(name)
        raise DoubleUnsupported('the pandas double has no Series.%s' % name)

    def items(self):
        return list(enumerate(self.vals))


class SymFrame:
    def __init__(self, cols=None, index=None):
        self.cols = dict(cols or {})
        self.order = list(self.cols)
        n = len(self.cols[self.order[0]]) if self.order else (index.n if index is not None else 0)
        self.index = index if index is not None else SymIndex(n)

    # -- structure --
    def __iter__(self):
        return iter(self.order)

    def __len__(self):
        return self.index.n

    def __contains__(self, c):
        return c in self.order

    @property
    def columns(self):
        return _Cols(self.order)

    @property
    def shape(self):
        return (self.index.n, len(self.order))

    def __getitem__(self, key):
        if isinstance(key, SymSeries):          # boolean mask
            keep = [i for i, k in enumerate(key.vals) if k]
            f = SymFrame({c: SymSeries([self.cols[c].vals[i] for i in keep], self.cols[c].dtype)
                          for c in self.order}, SymIndex(len(keep), self.index.name))
            f.order = list(self.order)
            f.rows = [getattr(self, 'rows', list(range(self.index.n)))[i] for i in keep]
            return f
        if isinstance(key, list):
            f = SymFrame({c: self.cols[c] for c in key}, self.index)
            f.order = list(key)
            return f
        return self.cols[key]

    def __setitem__(self, c, v):
        if not isinstance(v, SymSeries):
            v = SymSeries([v] * self.index.n, BOOL if isinstance(v, bool) else OBJ)
        if c not in self.cols:
            self.order.append(c)
        self.cols[c] = v

    def insert(self, pos, name, series):
        self.cols[name] = series
        self.order.insert(pos, name)

    def drop(self, names, axis=0):
        assert axis == 1
        f = SymFrame({c: self.cols[c] for c in self.order if c not in names}, self.index)
        return f

    def select_dtypes(self, include=None):
        keep = [c for c in self.order if str(self.cols[c].dtype).startswith('datetime')]
        return SymFrame({c: self.cols[c] for c in keep}, self.index)

    def sum(self, axis=0):
        assert axis == 1
        out = []
        for i in range(self.index.n):
            t = 0
            for c in self.order:
                v = self.cols[c].vals[i]
                if v is not None:
                    t = t + (1 if v is True else 0 if v is False else v)
            out.append(t)
        return SymSeries(out, FLOAT)

    def isnull(self):
        return SymFrame({c: self.cols[c].isnull() for c in self.order}, self.index)

    def __getattr__(self, name):
        if name.startswith('__') or name == 'rows':
            raise AttributeError(name)
        raise DoubleUnsupported('the pandas double has no DataFrame.%s' % name)

    def duplicated(self, colname, keep=False):
        vals = self.cols[colname].vals
        out = []
        for i, v in enumerate(vals):
            dup = False
            for j, w in enumerate(vals):
                if i != j and ((v is None and w is None) or (v is not None and w is not None and v == w)):
                    dup = True
                    break
            out.append(dup)
        return SymSeries(out, BOOL)


class _Cols:
    def __init__(self, order):
        self.order = order

    def tolist(self):
        return list(self.order)

    def __iter__(self):
        return iter(self.order)


class _SeriesNS:
    Series = SymSeries


class _CoreNS:
    series = _SeriesNS


def make_fakes(real_pd, real_np):
    """namespace objects to patch over `pd` and `np` inside a tdda module"""
    class FakePD(metaclass=_Unsupported):
        Timestamp = real_pd.Timestamp
        NaT = None
        core = _CoreNS
        RangeIndex = real_pd.RangeIndex
        MultiIndex = real_pd.MultiIndex

        @staticmethod
        def isnull(v):
            if isinstance(v, SymSeries):
                return v.isnull()
            return v is None

        @staticmethod
        def notnull(v):
            if isinstance(v, SymSeries):
                return v.notnull()
            return v is not None

        @staticmethod
        def DataFrame(data=None, index=None):
            if data is None:
                return SymFrame({}, index=index)
            raise NotImplementedError('DataFrame(data)')

        @staticmethod
        def to_datetime(v):
            return v

    class FakeNP(metaclass=_Unsupported):
        nan = None
        dtype = real_np.dtype
        datetime64 = real_np.datetime64
        bool_ = real_np.bool_

        @staticmethod
        def where(cond, a, b):
            av = a.vals if isinstance(a, SymSeries) else [a] * len(cond)
            bv = b.vals if isinstance(b, SymSeries) else [b] * len(cond)
            return SymSeries([x if c else y for c, x, y in zip(cond.vals, av, bv)], OBJ)

    return FakePD, FakeNP


class patched:
    """patch pd/np inside tdda.constraints.pd.constraints for the duration of a harness body"""
    def __init__(self, module):
        self.m = module

    def __enter__(self):
        self.saved = (self.m.pd, self.m.np)
        import pandas
        import numpy
        self.m.pd, self.m.np = make_fakes(pandas, numpy)
        return self

    def __exit__(self, *a):
        self.m.pd, self.m.np = self.saved
        return False


def int_series(vals):
    """what pandas gives for a list of ints with None: int64 when there is no null, else float64"""
    has_null = False
    for v in vals:
        if v is None:
            has_null = True
    return SymSeries(vals, FLOAT if has_null else INT)


def bool_series(vals):
    has_null = False
    for v in vals:
        if v is None:
            has_null = True
    return SymSeries(vals, OBJ if has_null else BOOL)


def str_series(vals):
    return SymSeries(vals, OBJ)


def float_series(vals):
    return SymSeries(vals, FLOAT)


def date_series(vals):
    return SymSeries(vals, DATE)
