"""Conformance pass: the symdf double against real pandas, *as tdda uses them*.

Seeded concrete columns are pushed through tdda's real calculator / discoverer / verifier / detector twice -
once over a real pandas DataFrame, once over the double patched into tdda.constraints.pd.constraints - and every
observable result must agree.  A mismatch means the double's contract is wrong: harness error, never a violation.
"""
import datetime
import math
import os
import random


def _norm(v):
    """pandas/numpy scalars -> plain Python, NaN/NaT -> None"""
    import numpy as np
    import pandas as pd
    if v is None:
        return None
    try:
        if pd.isnull(v):
            return None
    except (TypeError, ValueError):
        pass
    if isinstance(v, (np.generic,)):
        v = v.item()
    if isinstance(v, pd.Timestamp):
        v = v.to_pydatetime()
    if isinstance(v, float) and v == int(v) and not math.isinf(v):
        return int(v)
    return v


def _norm_deep(o):
    if isinstance(o, dict):
        return {k: _norm_deep(v) for k, v in o.items()}
    if isinstance(o, (list, tuple)):
        return [_norm_deep(v) for v in o]
    return _norm(o)


def _columns(rnd):
    n = rnd.randint(0, 5)
    kind = rnd.choice(['int', 'bool', 'str', 'date', 'real'])

    def maybe_null(v):
        return None if rnd.random() < 0.25 else v
    if kind == 'int':
        vals = [maybe_null(rnd.choice([-2, -1, 0, 0, 1, 2, 3, 10 ** 12])) for _ in range(n)]
    elif kind == 'bool':
        vals = [maybe_null(rnd.choice([True, False])) for _ in range(n)]
    elif kind == 'str':
        vals = [maybe_null(rnd.choice(['', 'a', 'ab', 'b', 'é', 'a b', '12'])) for _ in range(n)]
    elif kind == 'date':
        vals = [maybe_null(datetime.datetime(2000, 1, 1) + datetime.timedelta(days=rnd.randint(0, 3)))
                for _ in range(n)]
    else:
        vals = [maybe_null(rnd.choice([-1.5, 0.0, 0.5, 2.0, 3.25])) for _ in range(n)]
    return kind, vals


def _real_series(kind, vals):
    import pandas as pd
    has_null = any(v is None for v in vals)
    if kind == 'int':
        return pd.Series(vals, dtype='float64' if has_null else 'int64')
    if kind == 'bool':
        return pd.Series(vals, dtype=object if has_null else bool)
    if kind == 'str':
        return pd.Series(vals, dtype=object)
    if kind == 'date':
        return pd.to_datetime(pd.Series(vals, dtype='datetime64[ns]'))
    return pd.Series(vals, dtype='float64')


def _double_series(kind, vals):
    from vp.doubles import symdf
    return {'int': symdf.int_series, 'bool': symdf.bool_series, 'str': symdf.str_series,
            'date': symdf.date_series, 'real': symdf.float_series}[kind](vals)


def _observe(pc, frame_factory, kind, vals, perturb):
    """everything tdda lets a user observe about one column"""
    from tdda.constraints.base import DatasetConstraints, native_definite
    out = {}
    df = frame_factory()
    calc = pc.PandasConstraintCalculator(df)
    out['type'] = calc.calc_tdda_type('c')
    out['nulls'] = calc.calc_null_count('c')
    out['nonnulls'] = calc.calc_non_null_count('c')
    out['min'] = calc.calc_min('c') if out['nonnulls'] else None
    out['max'] = calc.calc_max('c') if out['nonnulls'] else None
    if kind in ('int', 'str', 'bool'):
        out['nunique'] = calc.calc_nunique('c')
        out['uniques'] = calc.calc_unique_values('c', include_nulls=False)
    if kind == 'str':
        out['minlen'] = calc.calc_min_length('c')
        out['maxlen'] = calc.calc_max_length('c')
    if kind in ('int', 'real') and out['nonnulls']:
        out['nonint'] = calc.calc_non_integer_values_count('c')
    disc = pc.PandasConstraintDiscoverer(frame_factory(), inc_rex=False).discover()
    d = disc.to_dict()['fields'] if disc else {}
    out['discovered'] = d
    if d:
        d2 = {'fields': {'c': dict(d['c'])}}
        d2['fields']['c'].update(perturb)
        cons = DatasetConstraints()
        cons.initialize_from_dict(native_definite(d2))
        df3 = frame_factory()
        ver = pc.PandasConstraintVerifier(df3, epsilon=0.0)
        r = ver.detect(cons, VerificationClass=pc.PandasDetection, per_constraint=True, write_all=True)
        out['verdicts'] = {k: bool(v) for k, v in r.fields['c'].items()}
        out['failures'] = r.failures
        if r.detection is not None:
            det = r.detection.obj
            out['flags'] = {c: [x for x in (det[c].tolist() if hasattr(det[c], 'tolist') else det[c].vals)]
                            for c in list(det)}
            out['n_failing'] = int(r.detection.n_failing_records)
            out['n_passing'] = int(r.detection.n_passing_records)
    return _norm_deep(out)


def symdf_conformance():
    import pandas as pd
    import tdda.constraints.pd.constraints as pc
    from vp.doubles import symdf
    from vp.doubles.symdf import SymFrame
    rnd = random.Random(int(os.environ.get('VERIF_SEED', '0')) + 1)
    n = int(os.environ.get('VP_CONFORMANCE_N', '300'))
    checked = 0
    for case in range(n):
        kind, vals = _columns(rnd)
        perturb = {}
        nn = [v for v in vals if v is not None]
        if nn and kind in ('int', 'real'):
            perturb = rnd.choice([{}, {'min': max(nn)}, {'max': min(nn)}, {'sign': 'negative'}, {'sign': 'positive'},
                                  {'max_nulls': 0}, {'no_duplicates': True}, {'type': 'string'},
                                  {'min': {'value': max(nn), 'precision': 'open'}}])
        elif nn and kind == 'str':
            perturb = rnd.choice([{}, {'min_length': 2}, {'max_length': 0}, {'allowed_values': ['a']},
                                  {'rex': ['^a+$']}, {'no_duplicates': True}, {'max_nulls': 0}, {'type': 'int'}])
        elif nn and kind == 'bool':
            perturb = rnd.choice([{}, {'max_nulls': 0}, {'sign': 'zero'}, {'type': 'string'}])
        elif nn and kind == 'date':
            perturb = rnd.choice([{}, {'min': str(max(nn))}, {'max': str(min(nn))}, {'max_nulls': 0}])
        real = _observe(pc, lambda: pd.DataFrame({'c': _real_series(kind, vals)}), kind, vals, perturb)
        with symdf.patched(pc):
            dbl = _observe(pc, lambda: SymFrame({'c': _double_series(kind, vals)}), kind, vals, perturb)
        if real != dbl:
            keys = [k for k in set(real) | set(dbl) if real.get(k) != dbl.get(k)]
            return {'status': 'harness_error',
                    'message': 'symdf disagrees with pandas on %s column %r with %r: %s'
                               % (kind, vals, perturb, {k: (real.get(k), dbl.get(k)) for k in keys})}
        checked += 1
    return {'status': 'ok', 'checked': checked,
            'what': 'tdda calculator/discoverer/verifier/detector outputs over real pandas == over symdf on %d seeded '
                    'columns (int/bool/str/date/real, nulls, 0..5 rows, perturbed constraints)' % checked}
