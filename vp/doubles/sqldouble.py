"""SQL-template evaluator standing in for a DB-API connection to SQLite.

It answers the statements tdda's SQLDatabaseHandler emits by PARSING THE EMITTED TEXT and evaluating it over
one table whose columns are Python lists (values may be CrossHair symbolic; None is NULL).  Because it reads
the text, an emitted MAX where MIN is meant, a dropped DISTINCT, IS NULL for IS NOT NULL, a broken literal or
an unquoted identifier are all visible: text outside the grammar below raises SQLDoubleError.

Grammar (SQLite dialect, as emitted):
  PRAGMA table_info(<table>)
  SELECT COUNT(*) FROM sqlite_master [WHERE ...]                         (table existence)
  SELECT COUNT(*) FROM <table> [WHERE <col> IS [NOT] NULL [AND NOT(<rx> [OR <rx>]*)]]
        <rx> ::= (<col> REGEXP '<literal>')
  SELECT MIN|MAX(<col>) FROM <table>
  SELECT MIN|MAX(LENGTH(<col>)) FROM <table>
  SELECT (MIN|MAX(CAST (<col> AS INT)) <> 0) FROM <table>                (booleans)
  SELECT COUNT(DISTINCT <col>) FROM <table> WHERE <col> IS NOT NULL
  SELECT DISTINCT <col> FROM <table> [WHERE <col> IS NOT NULL] [ORDER BY <col> ASC]
  <col> ::= "identifier" with "" for an embedded quote;  '<literal>' uses '' for an embedded quote.
Semantics: SQLite's (aggregates skip NULL and give NULL on no rows; LENGTH counts characters up to the first NUL; text ordered by
code point; REGEXP calls the function registered with create_function - here tdda's own regex_matcher).
Contract checked against the real sqlite3 module on seeded tables by sql_conformance().
"""
import re


class SQLDoubleError(Exception):
    """the statement is well-formed for the double but wrong for the table (no such column / table)"""


class SQLDoubleUnsupported(SQLDoubleError):
    """the statement uses SQL the double does not parse or model: nothing is decided about it"""


_TOKEN_CACHE = {}


def _tokens(sql):
    if type(sql) is str:            # concrete text: tokenise once per process (paths share the cache)
        hit = _TOKEN_CACHE.get(sql)
        if hit is None:
            hit = _TOKEN_CACHE[sql] = _tokens_uncached(sql)
        return list(hit)
    return _tokens_uncached(sql)


def _tokens_uncached(sql):
    out = []
    i = 0
    n = len(sql)
    while i < n:
        c = sql[i]
        if c.isspace():
            i += 1
        elif c == '"':
            j = i + 1
            val = ''
            while True:
                if j >= n:
                    raise SQLDoubleUnsupported('unterminated identifier in %r' % sql)
                if sql[j] == '"':
                    if j + 1 < n and sql[j + 1] == '"':
                        val += '"'
                        j += 2
                        continue
                    break
                val += sql[j]
                j += 1
            out.append(('ident', val))
            i = j + 1
        elif c == "'":
            j = i + 1
            val = ''
            while True:
                if j >= n:
                    raise SQLDoubleUnsupported('unterminated string literal in %r' % sql)
                if sql[j] == "'":
                    if j + 1 < n and sql[j + 1] == "'":
                        val += "'"
                        j += 2
                        continue
                    break
                val += sql[j]
                j += 1
            out.append(('str', val))
            i = j + 1
        elif c.isalnum() or c == '_':
            j = i
            while j < n and (sql[j].isalnum() or sql[j] in '_.'):
                j += 1
            out.append(('word', sql[i:j].upper() if sql[i:j].upper() in _KEYWORDS else sql[i:j]))
            i = j
        elif sql.startswith('<>', i):
            out.append(('sym', '<>'))
            i += 2
        elif c in '(),*;=':
            out.append(('sym', c))
            i += 1
        else:
            raise SQLDoubleUnsupported('unexpected character %r in %r' % (c, sql))
    return out


_KEYWORDS = {'SELECT', 'FROM', 'WHERE', 'COUNT', 'MIN', 'MAX', 'LENGTH', 'DISTINCT', 'IS', 'NOT', 'NULL', 'AND', 'OR',
             'ORDER', 'BY', 'ASC', 'REGEXP', 'CAST', 'AS', 'INT', 'PRAGMA'}


class _P:
    def __init__(self, toks, sql):
        self.t = toks
        self.i = 0
        self.sql = sql

    def peek(self, k=0):
        return self.t[self.i + k] if self.i + k < len(self.t) else (None, None)

    def take(self, kind=None, val=None):
        tk = self.peek()
        if (kind is not None and tk[0] != kind) or (val is not None and tk[1] != val):
            raise SQLDoubleUnsupported('expected %s %s at token %d of %r, found %r' % (kind, val, self.i, self.sql, tk))
        self.i += 1
        return tk[1]

    def maybe(self, kind, val):
        if self.peek() == (kind, val):
            self.i += 1
            return True
        return False

    def done(self):
        self.maybe('sym', ';')
        if self.i != len(self.t):
            raise SQLDoubleUnsupported('trailing text in %r' % self.sql)


class FakeCursor:
    def __init__(self, conn):
        self.conn = conn
        self.rows = []

    def execute(self, sql):
        self.conn.statements.append(sql)
        self.rows = self.conn._run(sql)

    def fetchall(self):
        return list(self.rows)


class FakeConnection:
    """table: name; columns: ordered dict name -> (declared type, list of values)"""
    def __init__(self, table, columns, regexp=None):
        self.table = table
        self.columns = columns
        self.regexp = regexp
        self.statements = []

    def cursor(self):
        return FakeCursor(self)

    def commit(self):
        pass

    # ---- evaluation ----
    def _col(self, name):
        if name not in self.columns:
            raise SQLDoubleError('no such column: %r' % name)
        return self.columns[name][1]

    def _nrows(self):
        for k in self.columns:
            return len(self.columns[k][1])
        return 0

    def _run(self, sql):
        p = _P(_tokens(sql), sql)
        if p.maybe('word', 'PRAGMA'):
            fn = p.take('word')
            if fn != 'table_info':
                raise SQLDoubleUnsupported('unsupported pragma %r' % fn)
            p.take('sym', '(')
            t = p.take('word')
            p.take('sym', ')')
            p.done()
            if t != self.table:
                return []
            return [(i, name, typ, 0, None, 0) for i, (name, (typ, _)) in enumerate(self.columns.items())]
        p.take('word', 'SELECT')
        # what is selected
        sel = self._select_expr(p)
        p.take('word', 'FROM')
        if p.peek() == ('sym', '('):
            # derived table: SELECT COUNT(*) FROM (SELECT DISTINCT "c" FROM t [WHERE "c" IS [NOT] NULL]) [AS] alias
            if sel != ('count*',):
                raise SQLDoubleUnsupported('only COUNT(*) over a derived table')
            p.take('sym', '(')
            p.take('word', 'SELECT')
            p.take('word', 'DISTINCT')
            col = p.take('ident')
            p.take('word', 'FROM')
            t = p.take('word')
            if t != self.table:
                raise SQLDoubleError('no such table: %r' % t)
            vals = list(self._col(col))
            if p.maybe('word', 'WHERE'):
                c2 = p.take('ident')
                p.take('word', 'IS')
                neg = p.maybe('word', 'NOT')
                p.take('word', 'NULL')
                flt = self._col(c2)
                vals = [v for v, f in zip(vals, flt) if (f is not None) == neg]
            p.take('sym', ')')
            p.maybe('word', 'AS')
            if p.peek()[0] == 'word' and p.peek()[1] not in _KEYWORDS:
                p.take('word')
            p.done()
            # DISTINCT keeps one row for all the NULLs
            nn = _distinct([v for v in vals if v is not None])
            return [(len(nn) + (1 if any(v is None for v in vals) else 0),)]
        t = p.take('word')
        if t == 'sqlite_master':
            # table existence probes
            if sel != ('count*',):
                raise SQLDoubleUnsupported('unexpected query on sqlite_master')
            if p.maybe('word', 'WHERE'):
                names = [v for k, v in p.t[p.i:] if k == 'str']
                return [(1 if self.table in names else 0,)]
            return [(1,)]
        if t != self.table:
            raise SQLDoubleError('no such table: %r' % t)
        keep = list(range(self._nrows()))
        if p.maybe('word', 'WHERE'):
            col = p.take('ident')
            p.take('word', 'IS')
            neg = p.maybe('word', 'NOT')
            p.take('word', 'NULL')
            vals = self._col(col)
            keep = [i for i in keep if (vals[i] is not None) == neg]
            if p.maybe('word', 'AND'):
                p.take('word', 'NOT')
                p.take('sym', '(')
                alts = []
                while True:
                    p.take('sym', '(')
                    c2 = p.take('ident')
                    p.take('word', 'REGEXP')
                    lit = p.take('str')
                    p.take('sym', ')')
                    alts.append((c2, lit))
                    if not p.maybe('word', 'OR'):
                        break
                p.take('sym', ')')
                out = []
                for i in keep:
                    hit = False
                    for c2, lit in alts:
                        if self.regexp(lit, self._col(c2)[i]):
                            hit = True
                            break
                    if not hit:
                        out.append(i)
                keep = out
        order = None
        if p.maybe('word', 'ORDER'):
            p.take('word', 'BY')
            order = p.take('ident')
            p.take('word', 'ASC')
        p.done()
        return self._eval(sel, keep, order)

    def _select_expr(self, p):
        if p.maybe('word', 'COUNT'):
            p.take('sym', '(')
            if p.maybe('sym', '*'):
                p.take('sym', ')')
                return ('count*',)
            p.take('word', 'DISTINCT')
            c = p.take('ident')
            p.take('sym', ')')
            return ('countdistinct', c)
        if p.maybe('word', 'DISTINCT'):
            return ('distinct', p.take('ident'))
        if p.peek() == ('sym', '('):
            # boolean: (MIN(CAST ("c" AS INT)) <> 0)
            p.take('sym', '(')
            agg = p.take('word')
            if agg not in ('MIN', 'MAX'):
                raise SQLDoubleUnsupported('expected MIN/MAX')
            p.take('sym', '(')
            p.take('word', 'CAST')
            p.take('sym', '(')
            c = p.take('ident')
            p.take('word', 'AS')
            p.take('word', 'INT')
            p.take('sym', ')')
            p.take('sym', ')')
            p.take('sym', '<>')
            z = p.take('word')
            if z != '0':
                raise SQLDoubleUnsupported('expected 0')
            p.take('sym', ')')
            return ('boolagg', agg, c)
        agg = p.take('word')
        if agg not in ('MIN', 'MAX'):
            raise SQLDoubleUnsupported('unsupported select %r' % agg)
        p.take('sym', '(')
        if p.maybe('word', 'LENGTH'):
            p.take('sym', '(')
            c = p.take('ident')
            p.take('sym', ')')
            p.take('sym', ')')
            return ('lenagg', agg, c)
        c = p.take('ident')
        p.take('sym', ')')
        return ('agg', agg, c)

    @staticmethod
    def _agg(agg, vals):
        nn = [v for v in vals if v is not None]
        if not nn:
            return None
        m = nn[0]
        for v in nn[1:]:
            if (v < m) if agg == 'MIN' else (v > m):
                m = v
        return m

    def _eval(self, sel, keep, order):
        kind = sel[0]
        if kind == 'count*':
            return [(len(keep),)]
        vals = [self._col(sel[-1])[i] for i in keep]
        if kind == 'countdistinct':
            return [(len(_distinct([v for v in vals if v is not None])),)]
        if kind == 'distinct':
            d = _distinct(vals)
            if order is not None:
                d = _sorted(d)
            return [(v,) for v in d]
        if kind == 'agg':
            return [(self._agg(sel[1], vals),)]
        if kind == 'lenagg':
            return [(self._agg(sel[1], [None if v is None else _sql_length(v) for v in vals]),)]
        if kind == 'boolagg':
            m = self._agg(sel[1], [None if v is None else int(v) for v in vals])
            return [(None if m is None else (1 if m != 0 else 0),)]
        raise SQLDoubleUnsupported(kind)


def _sql_length(v):
    """SQLite's LENGTH(text): characters before the first NUL"""
    n = v.find('\x00')
    return len(v) if n < 0 else n


def _distinct(vals):
    out = []
    for v in vals:
        dup = False
        for w in out:
            if (v is None and w is None) or (v is not None and w is not None and v == w):
                dup = True
                break
        if not dup:
            out.append(v)
    return out


def _sorted(vals):
    """insertion sort with plain comparisons (NULLs first, as SQLite does)"""
    out = []
    for v in vals:
        i = 0
        while i < len(out) and (out[i] is None or (v is not None and out[i] <= v)):
            i += 1
        out.insert(i, v)
    return out


class FakeDB:
    """what tdda's DatabaseHandler expects: .connection, .schema"""
    def __init__(self, conn):
        self.connection = conn
        self.schema = None


def sql_conformance():
    """seeded tables through real sqlite3 and through the double, statistic by statistic, via tdda's handler"""
    import os
    import random
    import sqlite3
    from collections import OrderedDict
    from tdda.constraints.db.drivers import SQLDatabaseHandler, DBConnector, regex_matcher
    rnd = random.Random(int(os.environ.get('VERIF_SEED', '0')) + 7)
    n = int(os.environ.get('VP_CONFORMANCE_N', '200'))
    for case in range(n):
        kind = rnd.choice(['INTEGER', 'REAL', 'TEXT', 'BOOLEAN'])
        rows = rnd.randint(0, 5)

        def v():
            if rnd.random() < 0.25:
                return None
            if kind == 'INTEGER':
                return rnd.choice([-3, 0, 1, 2, 10 ** 12])
            if kind == 'REAL':
                return rnd.choice([-1.5, 0.0, 0.5, 2.0])
            if kind == 'BOOLEAN':
                return rnd.choice([0, 1])
            return rnd.choice(['', 'a', 'ab', "it's", 'é', 'B', 'a b', '12', 'a\x00b', '\x00'])
        vals = [v() for _ in range(rows)]
        colname = rnd.choice(['c', 'weird name', 'q"uote'])
        real = sqlite3.connect(':memory:')
        real.create_function('regexp', 2, regex_matcher)
        real.execute('CREATE TABLE t ("%s" %s)' % (colname.replace('"', '""'), kind))
        for x in vals:
            real.execute('INSERT INTO t VALUES (?)', (x,))
        fake = FakeConnection('t', OrderedDict([(colname, (kind, list(vals)))]), regexp=regex_matcher)
        hr = SQLDatabaseHandler('sqlite', DBConnector(real, None))
        hf = SQLDatabaseHandler('sqlite', FakeDB(fake))
        calls = [('get_database_column_names', ('t',)), ('get_database_column_type', ('t', colname)),
                 ('get_database_nrows', ('t',)), ('get_database_nnull', ('t', colname)),
                 ('get_database_nnonnull', ('t', colname)), ('get_database_min', ('t', colname)),
                 ('get_database_max', ('t', colname)), ('get_database_nunique', ('t', colname)),
                 ('get_database_unique_values', ('t', colname)), ('check_table_exists', ('t',))]
        if kind == 'TEXT':
            calls += [('get_database_min_length', ('t', colname)), ('get_database_max_length', ('t', colname)),
                      ('get_database_rex_match', ('t', colname, ["^a+$", "^it's$"])),
                      ('get_database_rex_match', ('t', colname, [])),
                      ('get_database_rex_match', ('t', colname, ['^.*$']))]
        for name, args in calls:
            a = getattr(hr, name)(*args)
            b = getattr(hf, name)(*args)
            if a != b:
                return {'status': 'harness_error', 'message': 'sqldouble disagrees with sqlite3 on %s%r over %s %r: '
                        '%r vs %r' % (name, args, kind, vals, a, b)}
    return {'status': 'ok', 'checked': n, 'what': 'every statistic tdda asks of SQLite (through its real '
            'SQLDatabaseHandler) agrees between the real sqlite3 module and the double on %d seeded tables' % n}
