"""Recording stand-in for the `random` module as used by tdda.rexpy.rexpy.

Contract: sample(pop, k) returns k distinct members of pop, in an order and a
choice that are ARBITRARY (driven by a list of symbolic ints supplied by the
harness); getstate/setstate/seed are logged, not modelled."""


class FakeRandom:
    def __init__(self, picks):
        self.picks = list(picks)
        self.log = []

    def sample(self, pop, k):
        self.log.append('sample')
        pop = list(pop)
        if k > len(pop) or k < 0:
            raise ValueError('Sample larger than population or is negative')
        out = []
        for _ in range(k):
            j = (self.picks.pop() % len(pop)) if self.picks else 0
            # branch on the (possibly symbolic) pick so that the index, and hence the lists built from
            # it, are concrete on each path
            for cand in range(len(pop)):
                if j == cand:
                    j = cand
                    break
            out.append(pop.pop(j))
        return out

    def getstate(self):
        self.log.append('getstate')
        return ('STATE', len(self.log))

    def setstate(self, s):
        self.log.append(('setstate', s))

    def seed(self, n):
        self.log.append(('seed', n))
