"""One obligation, one process.

    ch_worker.py MODULE FUNCTION --mode check|twin|replay|profile|z3 [--timeout T] [--expr EXPR]

check/twin: CrossHair (z3-backed symbolic execution) over the harness function,
            whose PEP-316 pre/post lines state the obligation.  twin replaces the
            post-condition by False (reachability witness).
replay:     evaluate the counterexample call in plain CPython (no tracing).
profile:    same, under sys.setprofile, to list the real tdda functions entered.
z3:         call a function that builds and discharges direct z3 queries from the
            current source and returns a result dict.
Prints one JSON object on the last line of stdout.
"""
import argparse
import collections
import importlib
import json
import os
import re
import sys
import time
import traceback

from crosshair.util import CrossHairInternal


def load(modname, fname):
    mod = importlib.import_module(modname)
    return mod, getattr(mod, fname)


def run_crosshair(mod, fn, timeout, twin):
    from dataclasses import replace
    from crosshair.core import ConditionCheckable, run_checkables, AnalysisMessage
    from crosshair.core_and_libs import analyze_function  # registers lib patches
    from crosshair.condition_parser import condition_parser
    from crosshair.fnutil import FunctionInfo
    from crosshair.options import AnalysisOptionSet, DEFAULT_OPTIONS, AnalysisKind

    # CrossHair may "short-circuit" a call to any function that has a return annotation (its own patched
    # repr() among them): with some probability the call is replaced by a fresh symbolic value that is
    # reconciled at the end of the path, and paths that fail to reconcile are abandoned and retried.  That
    # makes exploration of code that calls repr() non-exhaustive.  Always call into the real function.
    import crosshair.core as _cc
    if not getattr(_cc, '_vp_no_shortcircuit', False):
        _orig_consider = _cc.consider_shortcircuit

        def _consider(fn, sig, bound, subconditions, allow_interpretation):
            if allow_interpretation:
                return None
            return _orig_consider(fn, sig, bound, subconditions, allow_interpretation)
        _cc.consider_shortcircuit = _consider
        _cc._vp_no_shortcircuit = True

    optset = AnalysisOptionSet(per_condition_timeout=float(timeout),
                               report_all=True,
                               analysis_kind=[AnalysisKind.PEP316])
    stats = collections.Counter()
    ctxfn = FunctionInfo.from_fn(fn)
    full = DEFAULT_OPTIONS.overlay(optset)
    full.stats = stats
    with condition_parser(full.analysis_kind) as parser:
        conditions = parser.get_fn_conditions(ctxfn)
    if conditions is None or not conditions.post:
        return {'status': 'harness_error', 'message': 'no conditions on %s' % fn.__name__}
    synt = list(conditions.syntax_messages())
    if synt:
        return {'status': 'harness_error', 'message': 'syntax: %s' % synt[0].message}
    posts = [p for p in conditions.post if p.evaluate is not None]
    if twin:
        posts = [replace(posts[0], evaluate=lambda bindings: False, expr_source='False')]
    results = []
    t0 = time.time()
    c0 = time.process_time()
    for p in posts:
        chk = ConditionCheckable(ctxfn, replace(full), replace(conditions, post=[p]))
        chk.options.stats = stats
        try:
            msgs = chk.analyze()
        except CrossHairInternal as e:
            # the engine itself gave up on this obligation (an internal consistency check of CrossHair failed):
            # nothing is decided
            return {'status': 'inconclusive', 'paths': int(stats.get('num_paths', 0)),
                    'message': 'CrossHair internal error: %s' % str(e)[:200]}
        results.extend(msgs)
    wall = time.time() - t0
    cpu = time.process_time() - c0
    # worst message decides
    order = ['confirmed', 'cannot_confirm', 'pre_unsat', 'post_err', 'exec_err', 'post_fail',
             'syntax_err', 'import_err']
    worst = max(results, key=lambda m: order.index(m.state.value))
    st = worst.state.value
    out = {'paths': int(stats.get('num_paths', 0)), 'wall_s': round(wall, 3), 'cpu_s': round(cpu, 3),
           'ch_state': st, 'message': worst.message}
    if st == 'confirmed':
        out['status'] = 'discharged'
    elif st in ('cannot_confirm', 'pre_unsat'):
        out['status'] = 'inconclusive'
    elif st in ('post_err', 'exec_err', 'post_fail'):
        out['status'] = 'counterexample'
        m = re.search(r'when calling (.*?)(?: \(which returns .*\))?$', worst.message, re.S)
        out['call'] = m.group(1) if m else None
        if not m:
            # e.g. "NotDeterministic: ..." - CrossHair could not complete the path; nothing to replay
            out['status'] = 'inconclusive'
        elif ' with crosshair.patch_to_return(' in out['call']:
            # the path depends on a value CrossHair invented for an un-doubled nondeterministic source
            # (random, time): it cannot be replayed as an ordinary call, so it decides nothing
            out['status'] = 'inconclusive'
            out['message'] = 'path depends on nondeterminism the harness does not control: ' + out['call'][:300]
    else:
        out['status'] = 'harness_error'
    return out


def eval_call(mod, expr):
    ns = dict(mod.__dict__)
    ns.setdefault('nan', float('nan'))
    ns.setdefault('inf', float('inf'))
    return eval(expr, ns)


DOUBLE_CLASSES = {'CFrame', 'CSeries', 'Mask', 'SymSeries', 'SymFrame', 'SymIndex', '_StrAcc', 'FakePD', 'FakeNP',
                  'FakeFS', 'FakeOS', 'FakeShutil', '_FakeFile', '_FakePath', 'FakeConnection', 'FakeDB', 'FakeCursor',
                  'FakeRandom'}


def _double_signature_error(e):
    """the code under test called a method of an environment double with arguments the double does not model
    (e.g. DataFrame.sort_values(..., ignore_index=True)): undecided, not a violation"""
    if not isinstance(e, TypeError):
        return False
    m = re.match(r"^(?:\w+\.)*(\w+)\.(\w+)\(\) (got an unexpected keyword argument|got multiple values|takes |missing )",
                 str(e))
    return bool(m) and m.group(1) in DOUBLE_CLASSES


def run_replay(mod, fn, expr):
    """True counterexample iff the harness function returns falsy or raises Exception."""
    try:
        compile(expr, '<counterexample call>', 'eval')
    except SyntaxError as e:
        return {'status': 'not_reproduced', 'how': 'the counterexample call cannot be parsed: %s' % e}
    try:
        r = eval_call(mod, expr)
    except Exception as e:      # noqa
        if type(e).__name__ in ('DoubleUnsupported', 'SQLDoubleUnsupported') or _double_signature_error(e):
            return {'status': 'unsupported', 'how': 'environment double: %s' % str(e)[:300]}
        return {'status': 'reproduced', 'how': 'raises %s: %s' % (type(e).__name__, str(e)[:300]),
                'traceback': traceback.format_exc()[-1500:]}
    if not r:
        return {'status': 'reproduced', 'how': 'returns %r' % (r,)}
    return {'status': 'not_reproduced', 'how': 'returns %r' % (r,)}


def run_profile(mod, fn, expr):
    seen = set()
    root = os.environ.get('VERIF_REPO', '/repo').rstrip('/') + '/'

    def prof(frame, event, arg):
        if event == 'call':
            co = frame.f_code
            f = co.co_filename
            if f.startswith(root):
                seen.add('%s:%s:%d' % (f[len(root):], co.co_name, co.co_firstlineno))
    sys.setprofile(prof)
    try:
        try:
            eval_call(mod, expr)
        except Exception:
            pass
    finally:
        sys.setprofile(None)
    return {'status': 'ok', 'functions': sorted(seen)}


def main():
    ap = argparse.ArgumentParser()
    ap.add_argument('module')
    ap.add_argument('function')
    ap.add_argument('--mode', default='check')
    ap.add_argument('--timeout', type=float, default=60.0)
    ap.add_argument('--expr')
    a = ap.parse_args()
    try:
        mod, fn = load(a.module, a.function)
        if a.mode in ('check', 'twin'):
            out = run_crosshair(mod, fn, a.timeout, a.mode == 'twin')
        elif a.mode == 'replay':
            out = run_replay(mod, fn, a.expr)
        elif a.mode == 'profile':
            out = run_profile(mod, fn, a.expr)
        elif a.mode == 'z3':
            t0 = time.time()
            out = fn()
            out.setdefault('wall_s', round(time.time() - t0, 3))
        else:
            out = {'status': 'harness_error', 'message': 'bad mode'}
    except Exception as e:      # noqa
        out = {'status': 'harness_error', 'message': '%s: %s' % (type(e).__name__, e),
               'traceback': traceback.format_exc()[-3000:]}
    sys.stdout.flush()
    print('\n@@RESULT@@' + json.dumps(out))


if __name__ == '__main__':
    main()
