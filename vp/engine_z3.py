"""Direct-to-z3 translators, regenerated from /repo's current source on every run.

pysym : AST of named pure functions  ->  z3 term over exact Reals or IEEE Float64 (RNE).
        Handles return / if / IfExp / BoolOp / Compare / BinOp(+,-,*,|,&) / calls between translated
        functions / `type(v) is <datetime class>` (False on a numeric sort).  Any other node raises
        Untranslatable -> the obligation is inconclusive (a rewrite can never be silently mis-encoded).
re2z3 : re._parser parse tree of a concrete pattern -> z3 regular expression (literal / class / range /
        \\d as [0-9] / repeat / group / branch / anchors at the ends).
"""
import ast
import time

import z3

try:
    import re._parser as sre_parse
except ImportError:     # pragma: no cover
    import sre_parse


class Untranslatable(Exception):
    pass


class PySym:
    def __init__(self, sources, mode):
        """sources: list of (module) whose top-level functions may be called; mode 'real' | 'fp'"""
        self.mode = mode
        self.funcs = {}
        self.where = {}
        for mod in sources:
            tree = ast.parse(open(mod.__file__).read())
            for n in tree.body:
                if isinstance(n, ast.FunctionDef):
                    self.funcs.setdefault(n.name, n)
                    self.where.setdefault(n.name, '%s:%s:%d' % (mod.__name__, n.name, n.lineno))
        self.entered = set()

    def const(self, v):
        if isinstance(v, bool):
            return z3.BoolVal(v)
        if isinstance(v, (int, float)):
            if self.mode == 'real':
                return z3.RealVal(repr(v) if isinstance(v, float) else str(v))
            return z3.FPVal(float(v), z3.Float64())
        raise Untranslatable('constant %r' % (v,))

    def call(self, name, args):
        if name not in self.funcs:
            raise Untranslatable('call to %s' % name)
        fn = self.funcs[name]
        self.entered.add(self.where[name])
        if len(fn.args.args) != len(args) or fn.args.vararg or fn.args.kwarg:
            raise Untranslatable('signature of %s' % name)
        env = {a.arg: v for a, v in zip(fn.args.args, args)}
        r = self.block(fn.body, env)
        if r is None:
            raise Untranslatable('%s may fall off its end' % name)
        return r

    def block(self, stmts, env):
        for i, s in enumerate(stmts):
            if isinstance(s, ast.Expr) and isinstance(s.value, ast.Constant):
                continue            # docstring
            if isinstance(s, ast.Return):
                return self.ev(s.value, env)
            if isinstance(s, ast.If):
                c = self.ev(s.test, env)
                rest = stmts[i + 1:]
                if z3.is_false(c):
                    return self.block(s.orelse + rest, env)
                if z3.is_true(c):
                    return self.block(s.body + rest, env)
                t = self.block(s.body + rest, env)
                e = self.block(s.orelse + rest, env)
                if t is None or e is None:
                    raise Untranslatable('branch without return')
                return z3.If(c, t, e)
            raise Untranslatable(ast.dump(s)[:80])
        return None

    def arith(self, op, a, b):
        if self.mode == 'fp':
            rm = z3.RNE()
            table = {ast.Mult: lambda: z3.fpMul(rm, a, b), ast.Add: lambda: z3.fpAdd(rm, a, b),
                     ast.Sub: lambda: z3.fpSub(rm, a, b)}
        else:
            table = {ast.Mult: lambda: a * b, ast.Add: lambda: a + b, ast.Sub: lambda: a - b}
        if type(op) not in table:
            raise Untranslatable('operator %s' % type(op).__name__)
        return table[type(op)]()

    def ev(self, e, env):
        if isinstance(e, ast.Constant):
            return self.const(e.value)
        if isinstance(e, ast.Name):
            if e.id not in env:
                raise Untranslatable('name %s' % e.id)
            return env[e.id]
        if isinstance(e, ast.BoolOp):
            vs = [self.ev(v, env) for v in e.values]
            return z3.Or(*vs) if isinstance(e.op, ast.Or) else z3.And(*vs)
        if isinstance(e, ast.UnaryOp) and isinstance(e.op, ast.Not):
            return z3.Not(self.ev(e.operand, env))
        if isinstance(e, ast.UnaryOp) and isinstance(e.op, ast.USub) and isinstance(e.operand, ast.Constant):
            return self.const(-e.operand.value)
        if isinstance(e, ast.Compare):
            left = self.ev(e.left, env) if not self._is_type_call(e.left) else None
            out = []
            for op, r in zip(e.ops, e.comparators):
                if isinstance(op, ast.Is) and self._is_type_call(e.left) and self._is_datetime_class(r):
                    out.append(z3.BoolVal(False))      # a numeric value is never a datetime
                    continue
                if left is None:
                    raise Untranslatable('comparison on type()')
                rv = self.ev(r, env)
                f = {ast.GtE: lambda a, b: a >= b, ast.LtE: lambda a, b: a <= b, ast.Gt: lambda a, b: a > b,
                     ast.Lt: lambda a, b: a < b, ast.Eq: lambda a, b: a == b}.get(type(op))
                if f is None:
                    raise Untranslatable('comparison %s' % type(op).__name__)
                out.append(f(left, rv))
                left = rv
            return z3.And(*out) if len(out) > 1 else out[0]
        if isinstance(e, ast.BinOp):
            a, b = self.ev(e.left, env), self.ev(e.right, env)
            if isinstance(e.op, ast.BitOr):
                if not (z3.is_bool(a) and z3.is_bool(b)):
                    raise Untranslatable('| on non-boolean')
                return z3.Or(a, b)      # element-wise | of boolean Series, for one element
            if isinstance(e.op, ast.BitAnd):
                if not (z3.is_bool(a) and z3.is_bool(b)):
                    raise Untranslatable('& on non-boolean')
                return z3.And(a, b)
            return self.arith(e.op, a, b)
        if isinstance(e, ast.IfExp):
            return z3.If(self.ev(e.test, env), self.ev(e.body, env), self.ev(e.orelse, env))
        if isinstance(e, ast.Call) and isinstance(e.func, ast.Name) and e.func.id in self.funcs and not e.keywords:
            return self.call(e.func.id, [self.ev(a, env) for a in e.args])
        raise Untranslatable(ast.dump(e)[:80])

    @staticmethod
    def _is_type_call(e):
        return isinstance(e, ast.Call) and isinstance(e.func, ast.Name) and e.func.id == 'type'

    @staticmethod
    def _is_datetime_class(e):
        return (isinstance(e, ast.Attribute) and isinstance(e.value, ast.Name) and e.value.id == 'datetime'
                and e.attr in ('datetime', 'date'))


# ---- regular languages ------------------------------------------------------------------------------
def re2z3(pattern):
    return _tr(sre_parse.parse(pattern), top=True)


def _tr(p, top=False):
    parts = []
    items = list(p)
    for idx, (op, av) in enumerate(items):
        op = str(op)
        if op == 'LITERAL':
            parts.append(z3.Re(chr(av)))
        elif op == 'IN':
            parts.append(_tr_in(av))
        elif op == 'MAX_REPEAT':
            lo, hi, sub = av
            r = _tr(sub)
            if hi == sre_parse.MAXREPEAT:
                parts.append(z3.Concat(z3.Loop(r, lo, lo), z3.Star(r)) if lo else z3.Star(r))
            else:
                parts.append(z3.Loop(r, lo, hi))
        elif op == 'SUBPATTERN':
            parts.append(_tr(av[3]))
        elif op == 'BRANCH':
            parts.append(z3.Union(*[_tr(b) for b in av[1]]))
        elif op == 'AT':
            name = str(av)
            ok = top and ((name == 'AT_BEGINNING' and idx == 0) or (name == 'AT_END' and idx == len(items) - 1))
            if not ok:
                raise Untranslatable('anchor %s not at an end' % name)
        elif op == 'ANY':
            parts.append(z3.AllChar(z3.ReSort(z3.StringSort())))
        else:
            raise Untranslatable('regex op %s' % op)
    if not parts:
        return z3.Re('')
    return z3.Concat(*parts) if len(parts) > 1 else parts[0]


def _tr_in(av):
    neg = False
    alts = []
    for op, v in av:
        op = str(op)
        if op == 'NEGATE':
            neg = True
        elif op == 'LITERAL':
            alts.append(z3.Re(chr(v)))
        elif op == 'RANGE':
            alts.append(z3.Range(chr(v[0]), chr(v[1])))
        elif op == 'CATEGORY' and str(v) == 'CATEGORY_DIGIT':
            alts.append(z3.Range('0', '9'))     # ASCII digits only (stated where it matters)
        else:
            raise Untranslatable('class item %s %s' % (op, v))
    r = z3.Union(*alts) if len(alts) > 1 else alts[0]
    if neg:
        r = z3.Intersect(z3.Complement(r), z3.AllChar(z3.ReSort(z3.StringSort())))
    return r


# ---- query runner --------------------------------------------------------------------------------------
def _cvc5(smt2_text, timeout_s=60):
    """second opinion from the cvc5 binary (1.0.3) on the same SMT-LIB text; 'unavailable' if it cannot be run"""
    import os
    import subprocess
    import tempfile
    exe = '/usr/bin/cvc5'
    if not os.path.exists(exe):
        return 'unavailable'
    fd, path = tempfile.mkstemp(suffix='.smt2', prefix='vp_q_')
    try:
        with os.fdopen(fd, 'w') as f:
            f.write('(set-logic ALL)\n' + smt2_text)
        try:
            p = subprocess.run([exe, '--strings-exp', '--tlimit=%d' % (timeout_s * 1000), path],
                               capture_output=True, text=True, timeout=timeout_s + 10)
        except subprocess.TimeoutExpired:
            return 'timeout'
        out = (p.stdout or '').strip().splitlines()
        if '(error' in (p.stdout or '') or '(error' in (p.stderr or ''):
            return 'error'
        return out[0] if out and out[0] in ('sat', 'unsat', 'unknown') else 'error'
    finally:
        os.unlink(path)


class Queries:
    def __init__(self, timeout_ms=60000, cross=None):
        import os
        self.timeout_ms = timeout_ms
        self.log = []
        self.total = 0.0
        self.cross = (os.environ.get('VERIF_TIER') == 'thorough') if cross is None else cross
        self.disagreements = []

    def check(self, name, *constraints, expect='unsat'):
        """returns ('unsat'|'sat'|'unknown', model-or-None)"""
        s = z3.Solver()
        s.set('timeout', self.timeout_ms)
        s.add(*constraints)
        t0 = time.time()
        r = str(s.check())
        dt = time.time() - t0
        self.total += dt
        m = s.model() if r == 'sat' else None
        entry = {'query': name, 'result': r, 'expected': expect, 'time_s': round(dt, 3)}
        if self.cross:
            # thorough tier: the same assertions through cvc5; sat-vs-unsat disagreement is a harness error
            c = _cvc5(s.to_smt2())
            entry['cvc5'] = c
            if {c, r} == {'sat', 'unsat'}:
                self.disagreements.append(name)
        self.log.append(entry)
        return r, m
