"""C03 - every example string is matched by one of the expressions rexpy returns.

The pipeline is a chain of per-character / per-run / per-list transformations;
each lemma below runs the real function of one link on symbolic input.
"""
import re
from typing import List, Optional, Tuple

from vp.ob import Ob
from vp import rt
from vp.oracles import bracket_match, quantifier_range, unescape_plain
from vp.doubles.fakerandom import FakeRandom

import tdda.rexpy.rexpy as rx
from vp.harness import rexpy_common
rexpy_common.memoise_categories()
from tdda.rexpy.rexpy import (Extractor, Examples, Size, RE_FLAGS, escape, escaped_bracket, to_vrles,
                              run_length_encode, expand_or_falsify_vrle, signature)

P = rt.param({})
DIALECT = P.get('dialect', 'portable')
EXTRA = P.get('extra')
FULL = bool(P.get('full', False))


def _extractor(dialect, extra, full=False):
    seedex = ['a' + (extra or '')]     # thin_extras drops extra letters no example contains
    return Extractor(seedex, extract=False, dialect=dialect, extra_letters=extra, full_escape=full)


X = _extractor(DIALECT, EXTRA, FULL)
OUT = X.OutCats if X.dialect else X.Cats


def _out_match(code, s):
    """does the OUTPUT-dialect regex of category `code` match all of s?"""
    return re.match(re.compile('^(?:%s)$' % OUT[code].re_string, RE_FLAGS), s) is not None


@rt.known_class('C03.nonascii-decimal-portable')
def _k_nonascii_decimal(c, *rest):
    return DIALECT in ('portable', 'grep') and c.isdecimal() and not ('0' <= c <= '9')


# ---- L1 coarse class ---------------------------------------------------------
def l1_coarse(c: str) -> bool:
    """
    pre: len(c) == 1
    post: __return__
    """
    code = X.coarse_classify_char(c)        # must not hit its internal assert
    return _out_match(code, c)


# ---- L2 run-length encoding --------------------------------------------------
def l2_rle(s: str) -> bool:
    """
    pre: len(s) <= P['n']
    post: __return__
    """
    rle = run_length_encode(s)
    back = ''.join(c * n for c, n in rle)
    if back != s:
        return False
    for i in range(len(rle)):
        if rle[i][1] < 1 or len(rle[i][0]) != 1:
            return False
        if i and rle[i][0] == rle[i - 1][0]:
            return False
    return True


# ---- L3 variable run lengths ---------------------------------------------------
SIGS = [('C', '.'), ('C', ' '), ('.', 'C')]


def l3_vrles(counts: List[Tuple[int, int]], sig: List[int]) -> bool:
    """
    pre: 1 <= len(counts) <= P['n'] and len(sig) == len(counts)
    pre: all(1 <= a and 1 <= b for (a, b) in counts)
    pre: all(0 <= s < 3 for s in sig)
    post: __return__
    """
    rles = [((SIGS[s][0], a), (SIGS[s][1], b)) for (a, b), s in zip(counts, sig)]
    vrles, by_sig, vrle_by_sig = to_vrles(list(rles))
    for r in rles:
        v = vrle_by_sig.get(signature(r))
        if v is None or v not in vrles or len(v) != len(r):
            return False
        for (cat, n), (vc, m, M) in zip(r, v):
            if cat != vc:
                return False
            if not (m <= n and (M is None or n <= M)):
                return False
    return True


# ---- L4 fragment rendering ------------------------------------------------------
PIECES = [('a', True), ('\\.', True), ('[#%]', True), ('D', False), (rx.UNIC, False), (' ', False), ('.', False),
          ('?', False)]


def l4_fragment(pi: int, m: Optional[int], M: Optional[int], tagged: bool, output: bool) -> bool:
    """
    pre: 0 <= pi < len(PIECES)
    pre: m is None or 0 <= m <= P['mmax']
    pre: M is None or (1 <= M <= P['mmax'] + 1 and (m is None or m <= M))
    pre: not (m is None and M is not None)
    post: __return__
    """
    c, fixed = PIECES[pi]
    frag = (c, m, M, 'fixed') if fixed else (c, m, M)
    out = X.fragment2re(frag, tagged=tagged, output=output)
    cats = X.OutCats if (output and X.dialect) else X.Cats
    piece = c if fixed else cats[c].re_string
    if tagged and not fixed:
        if not (out.startswith('(') and out.endswith(')')):
            return False
        if not (piece.startswith('(') and out == piece):
            out = out[1:-1]
    if not out.startswith(piece):
        return False
    q = quantifier_range(out[len(piece):], piece)
    if q is None:
        return False
    lo, hi = q
    want_lo = m or 0
    if lo > want_lo:
        return False
    if hi is not None and (M is None or M > hi):
        return False
    return True


# ---- L5 refinement ----------------------------------------------------------------
def l5a_fine(c: str) -> bool:
    """
    pre: len(c) == 1
    pre: X.coarse_classify_char(c) == rx.UNIC
    pre: rt.admit(['C03.nonascii-decimal-portable'], c)
    post: __return__
    """
    return _out_match(X.fine_class(c), c)


def l5b_general(c: str, k: int) -> bool:
    """
    pre: len(c) == 1
    pre: 0 <= k < len(X.Cats.IncreasinglyGeneralAlphanumerics)
    pre: rt.admit(['C03.nonascii-decimal-portable'], c)
    post: __return__
    """
    name = X.Cats.IncreasinglyGeneralAlphanumerics[k]
    cat = getattr(X.Cats, name)
    if re.match(cat.re_multiple, c) is None:
        return True
    return _out_match(cat.code, c)


def l5c_bracket(chars: str, x: str) -> bool:
    """
    pre: 2 <= len(chars) <= P['n'] and len(x) == 1
    pre: all(c in PUNCT for c in chars) and x in PUNCT
    pre: all(chars[i] < chars[i+1] for i in range(len(chars)-1))
    post: __return__
    """
    # call-site invariant (refine_fragments): chars = ''.join(sorted(set of >=2 punctuation chars)),
    # at most Size.max_punc_in_group of them
    br = escaped_bracket(chars, dialect=X.Cats.dialect)
    return bracket_match(br, x) == (x in chars)


PUNCT = ''.join(X.Cats.PunctuationChars(''))


def l5d_escape(c: str) -> bool:
    """
    pre: len(c) == 1
    post: __return__
    """
    e = X.Cats.escape(c)
    return unescape_plain(e) == c


def l5e_expand(ra: int, rb: int, va: int, vA: int, vb: int, vB: int, fixed: bool, lr: int, lv: int,
               variable: bool) -> bool:
    """
    pre: 1 <= ra and 1 <= rb and 0 <= va <= vA and 0 <= vb <= vB and 1 <= vA and 1 <= vB
    pre: 1 <= lr <= 2 and 1 <= lv <= 2
    post: __return__
    """
    rle = [('a', ra), ('b', rb)][:lr]
    suf = ('fixed',) if fixed else ()
    vrle = [('a', va, vA) + suf, ('b', vb, vB) + suf][:lv]
    out = expand_or_falsify_vrle(rle, vrle, fixed=fixed, variableLength=variable)
    if out is False:
        return True
    # the result must admit the new rle and everything the old vrle admitted (as count vectors,
    # trailing fragments of the longer one being optional)
    if len(out) != max(lr, lv):
        return False
    for i, o in enumerate(out):
        c, m, M = o[:3]
        if i < lr:
            if rle[i][0] != c or not (m <= rle[i][1] <= M):
                return False
        elif m != 0:
            return False
        if i < lv:
            if vrle[i][0] != c or not (m <= vrle[i][1] and vrle[i][2] <= M):
                return False
        elif m != 0:
            return False
    return True


def l5g_plusify(cat: int, m: int, d: int, fixed: bool) -> bool:
    """
    pre: 0 <= cat < 3 and m >= 0 and d >= -1
    post: __return__
    """
    # plusify_vrle may only widen: whatever counts the fragment admitted before are admitted after
    M = None if d < 0 else m + d
    if M == 0:
        M = 1
    v = (['a', 'D', '.'][cat], m, M) + (('fixed',) if fixed else ())
    w = rx.plusify_vrle(v)
    if w[0] != v[0] or len(w) != len(v) or (fixed and w[3] != 'fixed'):
        return False
    wm, wM = w[1], w[2]
    if wm > m:
        return False
    if wM is not None and (M is None or wM < M):
        return False
    return True


def l5f_space(c: str) -> bool:
    """
    pre: len(c) == 1
    pre: c.isspace()
    post: __return__
    """
    # strip() removes exactly the isspace() characters; the wrapper must re-admit them
    return _out_match(X.Cats.Whitespace.code, c)


# ---- L7 sampling loop ------------------------------------------------------------------
UNIVERSE = ['s0', 's1', 's2', 's3']


class _IdealResults:
    """what L1-L6 give: the expressions match exactly the working set they were built from"""
    def __init__(self, work):
        self.rex = ['^W$']
        self.work = list(work)

    def remove(self, idx):
        pass

    def convert_to_dialect(self, x):
        pass


class _LoopX(Extractor):
    def batch_extract(self):
        return _IdealResults(self.examples.strings)


def l7_loop(n: int, do_all: int, dae: int, msa: int, picks: List[int]) -> bool:
    """
    pre: 1 <= n <= P['n'] and 1 <= do_all <= P['k'] and 1 <= dae <= P['k'] and 0 <= msa <= P['msa']
    pre: len(picks) <= P['n'] - 1 and all(0 <= p < P['n'] for p in picks)
    post: __return__
    """
    universe = UNIVERSE[:n]
    holder = {}
    fr = FakeRandom(picks)

    def check_fn(rexes, maxN):
        work = holder['x'].results.work if rexes else []
        fails = [s for s in universe if s not in work]
        if maxN is not None and len(fails) > maxN:
            fails = fr.sample(fails, maxN)
        return Examples(fails), [0] * len(rexes)
    saved = rx.random
    rx.random = fr
    try:
        size = Size(do_all=do_all, do_all_exceptions=dae, max_sampled_attempts=msa)
        x = _LoopX.__new__(_LoopX)
        holder['x'] = x
        x.results = None
        _LoopX.__init__(x, check_fn, size=size, extract=True, seed=7)
    finally:
        rx.random = saved
    return all(s in x.results.work for s in universe)


class _GeneralisingResults(_IdealResults):
    """what L1-L6 really give: the expressions match AT LEAST the working set they were built from; which other
    strings they happen to match is arbitrary and may change from one extraction to the next (a larger working
    set can yield a narrower expression, e.g. a hex-digit class instead of letters)"""
    def __init__(self, work, also):
        _IdealResults.__init__(self, work)
        self.also = list(also)


def l7c_loop_generalising(n: int, do_all: int, dae: int, msa: int, picks: List[int], gen: List[bool]) -> bool:
    """
    pre: 1 <= n <= P['n'] and 1 <= do_all <= P['k'] and 1 <= dae <= P['k'] and 0 <= msa <= P['msa']
    pre: len(picks) <= P['n'] - 1 and all(0 <= p < P['n'] for p in picks)
    pre: len(gen) == P['n'] * (P['msa'] + 4)
    post: __return__
    """
    universe = UNIVERSE[:n]
    holder = {}
    fr = FakeRandom(picks)
    flags = list(gen)

    class LoopG(Extractor):
        def batch_extract(self):
            work = list(self.examples.strings)
            also = []
            for s_ in universe:
                lucky = flags.pop() if flags else False
                if s_ not in work and lucky:
                    also.append(s_)
            return _GeneralisingResults(work, also)

    def check_fn(rexes, maxN):
        res = holder['x'].results
        fails = [s_ for s_ in universe if not (rexes and (s_ in res.work or s_ in res.also))]
        if maxN is not None and len(fails) > maxN:
            fails = fr.sample(fails, maxN)
        return Examples(fails), [0] * len(rexes)
    saved = rx.random
    rx.random = fr
    try:
        size = Size(do_all=do_all, do_all_exceptions=dae, max_sampled_attempts=msa)
        x = LoopG.__new__(LoopG)
        holder['x'] = x
        x.results = None
        LoopG.__init__(x, check_fn, size=size, extract=True, seed=7)
    finally:
        rx.random = saved
    return all(s_ in x.results.work or s_ in x.results.also for s_ in universe)


def lift_l7c(n, do_all, dae, msa, picks, gen):
    """public API witness of a non-monotone extraction: letters, then a digit that turns the class into hex digits"""
    bad = 0
    for ex in (['9', 'A', 'Z', 'b', 'a'], ['7', 'c', 'Q', 'B']):
        for seed in range(12):
            r = rx.extract(list(ex), size=Size(do_all=1, do_all_exceptions=1, n_per_length=1), seed=seed)
            if not all(any(_full(p, e) for p in r) for e in ex):
                bad += 1
    return bad == 0


def l7b_sample_non_matches(n: int, max_n: Optional[int], dae: int, picks: List[int], matched: List[bool]) -> bool:
    """
    pre: 1 <= n <= 4 and (max_n is None or 0 <= max_n <= 4) and 1 <= dae <= 4
    pre: len(picks) <= 4 and all(0 <= p < 4 for p in picks) and len(matched) == n
    post: __return__
    """
    # the default check function (check_for_failures -> sample_non_matches -> find_non_matches) must honour the
    # check-function contract extract() relies on: max_n None => EVERY non-matching example is returned;
    # a number => at most that many... and all of them when there are no more than that
    if P.get('nl'):
        # an example that is another example plus a final line end: '^a$' matches 'a\n' up to the newline,
        # which is not a match in full, so 'a\n' counts as unmatched unless its own expression is live
        strings = ['a', 'a\n', '1', '#'][:n]
        own = ['^a$', '^a\\\n$', '^1$', '^\\#$']
    else:
        strings = ['a', '1', '#', ' '][:n]
        own = ['^a$', '^1$', '^\\#$', '^ $']
    x = _LoopX.__new__(_LoopX)
    x.size = Size(do_all=100, do_all_exceptions=dae, max_sampled_attempts=2)
    x.all_examples = Examples(list(strings), [1] * n)
    x.results = object()
    rexes = [r if m else '^zzz%d$' % i for i, (r, m) in enumerate(zip(own[:n], matched))]
    fr = FakeRandom(picks)
    saved = rx.random
    rx.random = fr
    try:
        ex, freqs = x.check_for_failures(rexes, max_n)
    finally:
        rx.random = saved
    fails = [s_ for s_ in strings if not any(re.fullmatch(r, s_, RE_FLAGS) for r in rexes)]
    got = list(ex.strings)
    if len(set(got)) != len(got) or not all(g in fails for g in got):
        return False
    if max_n is None or len(fails) <= max_n:
        return sorted(got) == sorted(fails)
    return len(got) >= 1


def lift_l7(n, do_all, dae, msa, picks):
    """public API: distinct-signature examples, same Size; every example must be matched."""
    ex = ['a', '1', '#', ' '][:n]
    ok = True
    for seed in (None, 1, 2, 3):
        r = rx.extract(ex, size=Size(do_all=do_all, do_all_exceptions=dae, max_sampled_attempts=msa), seed=seed)
        ok = ok and all(any(_full(p, e) for p in r) for e in ex)
    return ok


# ---- L6: merging/alignment keeps every pattern intact ---------------------------------------------------------
MERGE_VOCAB = [('\\.', 1, 1, 'fixed'), ('a', 1, 1, 'fixed'), ('D', 1, 2)]


def l6_merge(p1: List[int], p2: List[int], p3: List[int]) -> bool:
    """
    pre: 1 <= len(p1) <= P['l1'] and 1 <= len(p2) <= 3 and len(p3) <= (3 if P['three'] else 0)
    pre: all(0 <= i < len(MERGE_VOCAB) for i in p1 + p2 + p3)
    post: __return__
    """
    def build(idx):
        out = []
        for i in idx:
            for k in range(len(MERGE_VOCAB)):
                if i == k:
                    out.append(MERGE_VOCAB[k])
                    break
        return out
    pats = [build(p1), build(p2)] + ([build(p3)] if p3 else [])
    import io
    import contextlib
    with contextlib.redirect_stdout(io.StringIO()):
        out = X.merge_patterns([list(p) for p in pats])
    # alignment may only regroup fragments: every input pattern comes back, fragment for fragment
    return sorted(tuple(r) for r in out) == sorted(tuple(r) for r in pats)


# ---- L8: the whole pipeline on tiny inputs ------------------------------------------------------------------
E2E_ALPHABET = 'aB1^- '


def _full(pattern, text):
    """'matched in full': the whole text, not the text up to a final newline that `$` tolerates"""
    return re.fullmatch(pattern, text, RE_FLAGS) is not None


def _text(idx, alphabet):
    out = ''
    for i in idx:
        for k in range(len(alphabet)):
            if i == k:          # branch: concrete characters on each path
                out += alphabet[k]
                break
    return out


def l8_pipeline(i1: List[int], i2: List[int], i3: List[int]) -> bool:
    """
    pre: len(i1) <= P['len'] and len(i2) <= P['len2'] and len(i3) <= (P['len2'] if P['three'] else 0)
    pre: all(0 <= i < len(P.get('alpha') or E2E_ALPHABET) for i in i1 + i2 + i3)
    post: __return__
    """
    alpha = P.get('alpha') or E2E_ALPHABET
    ex = [_text(i1, alpha), _text(i2, alpha)]
    if P['three']:
        ex.append(_text(i3, alpha))
    kw = dict(P.get('kw') or {})
    r = rx.extract(list(ex), dialect=DIALECT, **kw)
    for e in ex:
        if kw.get('remove_empties') and e.strip() == '' and kw.get('strip'):
            continue
        if kw.get('remove_empties') and e == '':
            continue
        if not any(_full(p_, e) for p_ in r):
            return False
    return True


SMALL_SIZE = {'do_all': 1, 'do_all_exceptions': 1, 'n_per_length': 1, 'max_sampled_attempts': 2}


def l8_sampled(i1: List[int], i2: List[int], i3: List[int], picks: List[int]) -> bool:
    """
    pre: len(i1) <= 2 and len(i2) <= P['len3'] and len(i3) <= P['len3'] and len(picks) <= P['picks']
    pre: all(0 <= i < len(P['alpha']) for i in i1 + i2 + i3) and all(0 <= p < 3 for p in picks)
    post: __return__
    """
    # a Size so small that extraction works from a sample of the examples and relies on its own failure
    # check to find the ones its expressions do not yet match; random.sample answers arbitrarily
    alpha = P['alpha']
    ex = [_text(i1, alpha), _text(i2, alpha), _text(i3, alpha)]
    fr = FakeRandom(picks)
    saved = rx.random, rx.ilist
    rx.random = fr
    rx.ilist = rexpy_common.plain_ilist     # array('i').extend(generator) is mis-modelled under tracing
    try:
        r = rx.extract(list(ex), dialect=DIALECT, size=Size(**SMALL_SIZE), seed=1)
    finally:
        rx.random, rx.ilist = saved
    return all(any(_full(p_, e) for p_ in r) for e in ex)


def lift_l8_sampled(i1, i2, i3, picks):
    """public API, real random: some seed must show it (the picks stand for an arbitrary seed)"""
    alpha = P['alpha']
    ex = [_text(i1, alpha), _text(i2, alpha), _text(i3, alpha)]
    for seed in range(40):
        r = rx.extract(list(ex), dialect=DIALECT, size=Size(**SMALL_SIZE), seed=seed)
        if not all(any(_full(p_, e) for p_ in r) for e in ex):
            return False
    return True


CODE_LETTERS = ['D', 'A', 'a', 'L', 'h', 'H', 'X', 'n', 'N', 'C', 'b', 'B', 'M', '.', '?', '*']
VAR_PARTS = ['1', '77', 'x']


def l8_code_letters(ci: int, v1: int, v2: int, v3: int, shape: int) -> bool:
    """
    pre: 0 <= ci < len(CODE_LETTERS) and 0 <= shape < 3
    pre: 0 <= v1 < len(VAR_PARTS) and 0 <= v2 < len(VAR_PARTS) and v3 == 0
    post: __return__
    """
    # examples holding, as a CONSTANT field, a character that rexpy uses internally as a category code,
    # next to a field that varies (rexpy represents literals and category codes in the same tuples)
    def pick(i, menu):
        for k in range(len(menu)):
            if i == k:
                return menu[k]
        return menu[-1]
    c = pick(ci, CODE_LETTERS)
    parts = [pick(v, VAR_PARTS) for v in (v1, v2)] + ['2']
    shape = pick(shape, [0, 1, 2])
    if shape == 0:
        ex = [c + '-' + p_ for p_ in parts]
    elif shape == 1:
        ex = [p_ + '/' + c for p_ in parts]
    else:
        ex = [c + c + ' ' + p_ for p_ in parts]
    kw = dict(P.get('kw') or {})
    r = rx.extract(list(ex), dialect=DIALECT, **kw)
    return all(any(_full(p_, e) for p_ in r) for e in ex)


# ---- lifting per-character lemmas to the public API ---------------------------------------
def _all_matched(examples, **kw):
    r = rx.extract(list(examples), dialect=DIALECT, extra_letters=EXTRA, **kw)
    return all(any(_full(p, e) for p in r) for e in examples)


def lift_char(c, *rest):
    ok = True
    for ex in ([c], ['a' + c, 'b' + c], [c + 'a', c + 'b'], [c + c, c], ['a' + c + 'b'], ['1' + c, '2' + c + c],
               [c, 'a', '#' + c],
               # contexts in which a character left bare would act as a metacharacter
               ['a' + c + '2}', 'b' + c + '2}'], ['a{2' + c, 'b{2' + c], ['x' + c + '1,3}'], ['x{1,3' + c],
               ['a' + c + 'b]', 'c' + c + 'd]'], ['(a' + c, '(b' + c], ['a' + c + '?', 'b' + c + '?'],
               ['a|' + c, 'b|' + c]):
        ok = ok and _all_matched(ex)
    return ok


def lift_bracket(chars, x):
    ex = ['a' + ch + 'b' for ch in chars]
    return _all_matched(ex) and _all_matched(list(chars))


DIALECTS = ['perl', 'portable', 'grep']
EXTRAS = [None, '_', '-', '.', '_.-']


def _obs():
    obs = []
    for d in DIALECTS:
        for e in EXTRAS:
            tier = 'quick' if (e in (None, '_.-') or d == 'portable') else 'thorough'
            obs.append(Ob('L1', 'l1_coarse', 'coarse_classify_char(c) never asserts and the output-dialect regex of '
                          'the class it returns matches c', 'c: any one of the 1,114,112 code points; dialect %s, '
                          'extra letters %r' % (d, e), param={'dialect': d, 'extra': e}, timeout=60, tier=tier,
                          lift='lift_char'))
            obs.append(Ob('L5a', 'l5a_fine', 'for an alphanumeric-class character, the output-dialect regex of '
                          'fine_class(c) matches c', 'c: any one code point; dialect %s, extra letters %r' % (d, e),
                          param={'dialect': d, 'extra': e}, timeout=90, tier=tier, lift='lift_char',
                          known=['C03.nonascii-decimal-portable'] if d != 'perl' else []))
            obs.append(Ob('L5b', 'l5b_general', 'whenever the internal regex of a refinement category matches c, '
                          'the output-dialect regex of that category matches c',
                          'c: any one code point; every category of IncreasinglyGeneralAlphanumerics (symbolic '
                          'index); dialect %s, extra letters %r' % (d, e),
                          param={'dialect': d, 'extra': e}, timeout=240, tier=tier, lift='lift_char',
                          known=['C03.nonascii-decimal-portable'] if d != 'perl' else []))
    obs.append(Ob('L2', 'l2_rle', 'run_length_encode(s) expands back to s; runs non-empty; adjacent codes differ',
                  's: any string, len <= 5', param={'n': 5}, timeout=120))
    obs.append(Ob('L2', 'l2_rle', 'run_length_encode(s) expands back to s; runs non-empty; adjacent codes differ',
                  's: any string, len <= 7', param={'n': 7}, timeout=900, tier='thorough'))
    obs.append(Ob('L3', 'l3_vrles', 'every rle given to to_vrles has a vrle of its signature whose ranges admit '
                  'its counts', '<=2 rles x 2 fragments, 3 signatures (symbolic choice), counts any ints >= 1',
                  param={'n': 2}, timeout=120))
    obs.append(Ob('L3', 'l3_vrles', 'every rle given to to_vrles has a vrle of its signature whose ranges admit '
                  'its counts', '<=3 rles x 2 fragments, 3 signatures (symbolic choice), counts any ints >= 1',
                  param={'n': 3}, timeout=900, tier='thorough'))
    for d in DIALECTS:
        for mmax, tier, to in ((3, 'quick', 120), (11, 'thorough', 1500)):
            obs.append(Ob('L4', 'l4_fragment', 'the quantifier fragment2re appends to an atomic piece admits every '
                          'count in m..M (>= m when M is None), tagged or not, internal or output dialect',
                          'piece: %d fixed/category pieces (symbolic index); m in 0..%d or None, M in 1..%d or None; '
                          'dialect %s' % (len(PIECES), mmax, mmax + 1, d), param={'dialect': d, 'mmax': mmax},
                          timeout=to, tier=tier))
    obs.append(Ob('L5c', 'l5c_bracket', 'escaped_bracket(chars), read by an independent bracket reader, matches a '
                  'punctuation character x iff x is in chars',
                  'chars: strictly increasing string of 2..3 ASCII punctuation characters (symbolic), x symbolic',
                  param={'n': 3}, timeout=240, lift='lift_bracket'))
    obs.append(Ob('L5c', 'l5c_bracket', 'escaped_bracket(chars), read by an independent bracket reader, matches a '
                  'punctuation character x iff x is in chars',
                  'chars: strictly increasing string of 2..5 ASCII punctuation characters (symbolic), x symbolic',
                  param={'n': 5}, timeout=1500, tier='thorough', lift='lift_bracket'))
    for full in (False, True):
        obs.append(Ob('L5d', 'l5d_escape', 'escape(c) un-escapes to c, leaves no metacharacter bare and never '
                      'backslash-escapes an alphanumeric', 'c: any one code point; full_escape=%s' % full,
                      param={'full': full}, timeout=120, lift='lift_char'))
    obs.append(Ob('L5e', 'l5e_expand', 'a non-False result of expand_or_falsify_vrle admits the new rle and '
                  'everything the old vrle admitted',
                  'rle and vrle of 1..2 fragments over fixed codes, all counts symbolic ints; fixed/variableLength '
                  'symbolic', timeout=240))
    obs.append(Ob('L5g', 'l5g_plusify', 'plusify_vrle only widens a fragment: every count admitted before is admitted '
                  'after (in particular an optional fragment stays optional)',
                  '3 codes; m any int >= 0; M = m + d for any d >= 0, or unbounded; fixed symbolic', timeout=120))
    obs.append(Ob('L7b', 'l7b_sample_non_matches', 'the default check function honours the contract extract() relies '
                  'on: asked for all failures (max None) it returns every non-matching example; asked for at most N '
                  'it returns distinct non-matching examples, all of them when there are no more than N',
                  '<=4 examples with symbolic matched/unmatched pattern; max_n None or 0..4; do_all_exceptions 1..4; '
                  'symbolic sample picks', timeout=300, stubs=['random -> FakeRandom (arbitrary subsets)']))
    obs.append(Ob('L7b', 'l7b_sample_non_matches', 'the default check function reports an example that is matched only '
                  'up to its final newline (not in full) as unmatched',
                  '<=4 examples a, a+newline, 1, # with symbolic live/dead own expressions; max_n None or 0..4; '
                  'do_all_exceptions 1..4; symbolic sample picks', param={'nl': 1}, timeout=300,
                  stubs=['random -> FakeRandom (arbitrary subsets)']))
    obs.append(Ob('L5f', 'l5f_space', 'every character str.strip() removes is re-admitted by the \\s* wrapper',
                  'c: any one code point with c.isspace()', timeout=60))
    for (n, k, msa, tier, to) in ((3, 2, 1, 'quick', 240), (4, 3, 2, 'thorough', 3000)):
        obs.append(Ob('L7', 'l7_loop', 'on return from the real Extractor.__init__/extract loop the working set '
                      'behind the results contains every example, whatever random.sample returns',
                      'universe <=%d strings; Size(do_all 1..%d, do_all_exceptions 1..%d, max_sampled_attempts 0..%d) '
                      'symbolic; <=%d symbolic sample picks' % (n, k, k, msa, n - 1),
                      param={'n': n, 'k': k, 'msa': msa}, timeout=to, tier=tier, lift='lift_l7',
                      stubs=['batch_extract idealised: its expressions match exactly its working set (what L1-L6 '
                             'give)', 'random -> FakeRandom (arbitrary subsets)']))
    for (n, k, msa, tier, to) in ((3, 2, 1, 'quick', 400), (4, 2, 2, 'thorough', 3000)):
        obs.append(Ob('L7', 'l7c_loop_generalising', 'the same loop when an extraction may also match strings outside '
                      'its working set, differently on every pass (expressions generalise, and not monotonically): on '
                      'return every example is matched by the results in force',
                      'universe <=%d strings; Size(do_all 1..%d, do_all_exceptions 1..%d, max_sampled_attempts 0..%d) '
                      'symbolic; <=%d symbolic sample picks; one symbolic "also matched" flag per string per pass'
                      % (n, k, k, msa, n - 1), param={'n': n, 'k': k, 'msa': msa}, timeout=to, tier=tier,
                      lift='lift_l7c',
                      stubs=['batch_extract idealised: its expressions match its working set (L1-L6) plus an arbitrary '
                             'set of other strings', 'random -> FakeRandom (arbitrary subsets)']))
    obs.append(Ob('L6', 'l6_merge', 'merge_patterns (alignment on shared fixed fragments, left and right) returns '
                  'exactly the patterns it was given, fragment for fragment',
                  '2 patterns of 1..2 and 1..3 fragments over a vocabulary of %d fragments (two fixed, one variable), '
                  'symbolic indexes' % len(MERGE_VOCAB), param={'three': False, 'l1': 2}, timeout=600))
    obs.append(Ob('L6', 'l6_merge', 'merge_patterns (alignment on shared fixed fragments, left and right) returns '
                  'exactly the patterns it was given, fragment for fragment',
                  '2 patterns of 1..3 fragments over a vocabulary of %d fragments' % len(MERGE_VOCAB),
                  param={'three': False, 'l1': 3}, timeout=3000, tier='thorough'))
    obs.append(Ob('L6', 'l6_merge', 'merge_patterns (alignment on shared fixed fragments, left and right) returns '
                  'exactly the patterns it was given, fragment for fragment',
                  '3 patterns of 1..3 fragments over a vocabulary of %d fragments' % len(MERGE_VOCAB),
                  param={'three': True, 'l1': 2}, timeout=7000, tier='thorough'))
    e2e = [('portable', {}, 'quick'), ('perl', {'tag': True}, 'quick'),
           ('portable', {'variableLengthFrags': True}, 'quick'), ('grep', {'strip': True}, 'quick'),
           ('portable', {}, 'thorough'), ('perl', {'tag': True}, 'thorough'),
           ('portable', {'variableLengthFrags': True}, 'thorough'), ('grep', {'strip': True}, 'thorough'),
           ('portable', {'extra_letters': '-', 'variableLengthFrags': True, 'tag': True}, 'thorough'),
           ('perl', {'strip': True, 'remove_empties': True}, 'thorough'),
           ('portable', {'full_escape': True}, 'thorough')]
    for d, kw, tier in e2e:
        obs.append(Ob('L8', 'l8_pipeline', 'end to end on tiny inputs: every example given to the real extract() is '
                      'matched by one of the expressions it returns',
                      'every pair of strings of length <=2 and <=%d over the alphabet %r (symbolic index per '
                      'position); dialect %s; options %r' % (1 if tier == 'quick' else 2, E2E_ALPHABET, d, kw),
                      param={'dialect': d, 'kw': kw, 'len': 2, 'len2': 1 if tier == 'quick' else 2, 'three': False},
                      timeout=600 if tier == 'quick' else 3000, tier=tier))
    obs.append(Ob('L8', 'l8_pipeline', 'end to end on tiny inputs: every example given to the real extract() is '
                  'matched by one of the expressions it returns',
                  'every triple of strings of lengths <=2, <=1, <=1 over the alphabet %r; portable; variableLengthFrags'
                  % E2E_ALPHABET, param={'dialect': 'portable', 'kw': {'variableLengthFrags': True}, 'len': 2,
                                         'len2': 1, 'three': True}, timeout=7000, tier='thorough'))
    for alpha, tier in (('a\n', 'quick'), ('a1 \n', 'thorough')):
        obs.append(Ob('L8', 'l8_pipeline', 'end to end with line ends inside the examples: every example is matched IN '
                      'FULL (re.fullmatch; `$` alone also accepts the text up to a final newline) by one of the '
                      'expressions returned', 'every pair of strings of length <=2 over the alphabet %r; portable; '
                      'default Size' % alpha,
                      param={'dialect': 'portable', 'kw': {}, 'len': 2, 'len2': 2, 'three': False, 'alpha': alpha},
                      timeout=600 if tier == 'quick' else 3000, tier=tier))
    for alpha, len3, tier in (('a\n', 1, 'quick'), ('a1\n', 1, 'thorough')):
        obs.append(Ob('L8', 'l8_sampled', 'end to end when extraction works from a sample (tiny Size): every example, '
                      'including one that is another example plus a final newline, is matched IN FULL by one of the '
                      'expressions returned, whatever random.sample picks',
                      'every triple of strings of lengths <=2, <=%d, <=%d over the alphabet %r; portable; Size(%r); <=%d '
                      'symbolic sample picks' % (len3, len3, alpha, SMALL_SIZE, len3 + 1),
                      param={'alpha': alpha, 'len3': len3, 'picks': len3 + 1, 'dialect': 'portable'},
                      timeout=600 if tier == 'quick' else 3000, tier=tier, lift='lift_l8_sampled',
                      stubs=['random -> FakeRandom (arbitrary subsets)', 'rexpy.ilist -> plain list']))
    for d, kw, tier in (('portable', {}, 'quick'), ('perl', {'tag': True}, 'thorough'),
                        ('grep', {'variableLengthFrags': True}, 'thorough')):
        obs.append(Ob('L8', 'l8_code_letters', 'end to end: examples whose constant field is a character rexpy also '
                      'uses internally as a category code (D, A, a, L, ..., ., ?, *) next to a varying field are all '
                      'matched by the returned expressions',
                      '%d code characters x 2 varying parts from a menu of %d (+ a third, fixed) x 3 shapes (symbolic indexes); dialect '
                      '%s; options %r' % (len(CODE_LETTERS), len(VAR_PARTS), d, kw),
                      param={'dialect': d, 'kw': kw}, timeout=900, tier=tier))
    return obs


OBLIGATIONS = _obs()
ASSUMPTIONS = ['Python re semantics for a concrete pattern on a symbolic string are those of CrossHair\'s regex model '
               '(validated by concrete replay of every counterexample)',
               'composition: L1-L6 give "each working-set string is matched by the expression built from its own '
               'signature group"; L7 gives "every example ends up in the final working set"']
OUTSIDE = ['alignment/merging of patterns beyond L6 bounds', 'pdextract pandas front end', 'the regex module (only re)',
           'dialects java/posix (not Python-interpretable)']
