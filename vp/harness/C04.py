"""C04 - text comparison passes exactly when texts agree modulo declared exclusions."""
from typing import List, Optional

from vp.ob import Ob
from vp import rt
from vp.oracles import text_rule, pattern_equiv_factory
from vp.doubles import fakefs

import tdda.referencetest.checkfiles as cf
from tdda.referencetest.checkfiles import FilesComparison

P = rt.param({})


def _cut_formatting():
    """reconstruct/add_failures only format the report (C15's subject); diff_marker's character loops
    are the one location that explodes path counts.  They are given empty bodies here."""
    FilesComparison.reconstruct = lambda self, *a, **k: None
    FilesComparison.add_failures = lambda self, *a, **k: None


_cut_formatting()


def _drop_first(lines):
    return lines[1:]


def _surrogate(s):
    """cheap stand-in normaliser: drop one leading underscore"""
    return s[1:] if s[:1] == '_' else s


def _opts():
    o = {}
    o['ign'] = ['#'] if P.get('ign') else []
    o['rem'] = ['!'] if P.get('rem') else []
    o['perm'] = 2 if P.get('perm') else 0
    o['pre'] = _drop_first if P.get('pre') else None
    return o


def _run(actual, expected, lstrip, rstrip, o, patterns=None):
    fc = FilesComparison(verbose=False, tmp_dir='/nonexistent')
    r = fc.check_strings(list(actual), list(expected), lstrip=lstrip, rstrip=rstrip,
                         ignore_substrings=o['ign'] or None, remove_lines=o['rem'] or None,
                         ignore_patterns=patterns, preprocess=o['pre'],
                         max_permutation_cases=o['perm'], create_temporaries=False)
    return r.failures == 0


def _alpha_ok(alpha, actual, expected):
    if not alpha:
        return True
    return all(c in alpha for x in actual for c in x) and all(c in alpha for x in expected for c in x)


def _bounded(lines, n, k):
    return len(lines) <= n and all(len(x) <= k for x in lines)


# ---- K1: decision vs reference rule -------------------------------------------------------------
def k1_decision(actual: List[str], expected: List[str]) -> bool:
    """
    pre: _bounded(actual, P['nl'], P['nc']) and _bounded(expected, P['nl'], P['nc'])
    pre: _alpha_ok(P.get('alpha'), actual, expected)
    pre: (not P.get('exact')) or (len(actual) == P['nl'] and len(expected) == P['nl'] and all(len(x) == P['nc'] for x in actual) and all(len(x) == P['nc'] for x in expected))
    post: __return__
    """
    o = _opts()
    mode = P.get('norm', 'none')
    if mode == 'surrogate':
        saved = FilesComparison.normalize_function
        FilesComparison.normalize_function = lambda self, l, r: _surrogate
        try:
            got = _run(actual, expected, True, True, o)
        finally:
            FilesComparison.normalize_function = saved
        norm = _surrogate
    elif mode == 'strip':
        got = _run(actual, expected, True, True, o)
        norm = lambda s: s.strip()
    else:
        got = _run(actual, expected, False, False, o)
        norm = None
    want, _ = text_rule(list(actual), list(expected), norm, o['ign'], o['rem'], o['perm'], o['pre'])
    return got == want


def k1_perm_three(ai: List[int], ei: List[int]) -> bool:
    """
    pre: len(ai) == 3 and len(ei) == 3 and all(0 <= i < 3 for i in ai) and all(0 <= i < 3 for i in ei)
    post: __return__
    """
    # the permutation allowance with more differing lines than the allowance: three one-letter lines a side
    def pick(idx):
        out = []
        for i in idx:
            for k in range(3):
                if i == k:
                    out.append('abc'[k])
                    break
        return out
    actual, expected = pick(ai), pick(ei)
    o = {'ign': [], 'rem': [], 'perm': 2, 'pre': None}
    got = _run(actual, expected, False, False, o)
    want, _ = text_rule(list(actual), list(expected), None, [], [], 2, None)
    return got == want


def k1_normalizer(s: str, l: bool, r: bool) -> bool:
    """
    pre: len(s) <= 3
    post: __return__
    """
    f = FilesComparison(verbose=False).normalize_function(l, r)
    want = s.strip() if (l and r) else s.lstrip() if l else s.rstrip() if r else s
    return f(s) == want


# ---- K2: identity ------------------------------------------------------------------------------------
def k2_identity(lines: List[str], lstrip: bool, rstrip: bool) -> bool:
    """
    pre: _bounded(lines, P['nl'], P['nc'])
    post: __return__
    """
    o = _opts()
    pats = [r'\d+'] if P.get('pat') else None
    return _run(lines, list(lines), lstrip, rstrip, o, pats)


# ---- K3: ignore-patterns vs the declarative reading ------------------------------------------------------
PATTERNS = {
    'digits': (r'\d+', lambda s: len(s) >= 1 and all(c in '0123456789' for c in s)),
    'ab': ('ab', lambda s: s == 'ab'),
    'xline': ('^x.*$', None),
    'lower': ('[a-z]+', lambda s: len(s) >= 1 and all('a' <= c <= 'z' for c in s)),
}


def k3_patterns(a: str, e: str) -> bool:
    """
    pre: len(a) <= P['nc'] and len(e) <= P['nc']
    pre: all(c in P['alpha'] for c in a) and all(c in P['alpha'] for c in e)
    post: __return__
    """
    name = P['pattern']
    pat, fm = PATTERNS[name]
    fc = FilesComparison(verbose=False, tmp_dir='/nonexistent')
    r = fc.check_strings([a], [e], ignore_patterns=[pat], create_temporaries=False)
    got = r.failures == 0
    if name == 'xline':
        # an anchored pattern excuses a pair exactly when it matches both whole lines
        want = (a == e) or (a[:1] == 'x' and e[:1] == 'x')
    else:
        want = pattern_equiv_factory([fm])(a, e)
    if a == '' or e == '':
        # the trailing-empty-line rule removes an empty last line before anything is compared
        want = (a == e) or (a == '' and e == '')
        ra = [] if a == '' else [a]
        re_ = [] if e == '' else [e]
        want = (ra == re_) if (not ra or not re_) else want
    return got == want


def lift_patterns(a, e):
    return k3_patterns(a, e)


# ---- K4: entry points --------------------------------------------------------------------------------------
def k4_string_vs_file(actual: str, ref: Optional[str]) -> bool:
    """
    pre: len(actual) <= P['nc'] and (ref is None or len(ref) <= P['nc'])
    post: __return__
    """
    fs = fakefs.FakeFS({} if ref is None else {'/ref/r.txt': ref})
    seen = {}
    saved = FilesComparison.check_strings

    def spy(self, actual_lines, expected_lines, **kw):
        seen['args'] = (list(actual_lines), list(expected_lines))
        return saved(self, actual_lines, expected_lines, **kw)
    FilesComparison.check_strings = spy
    try:
        with fakefs.patched(fs, cf):
            fc = FilesComparison(verbose=False, tmp_dir='/tmp/T')
            code, msgs = fc.check_string_against_file(actual, '/ref/r.txt', create_temporaries=False)
    finally:
        FilesComparison.check_strings = saved
    if ref is None:
        return code == 1 and 'args' not in seen
    text = ref.replace('\r\n', '\n').replace('\r', '\n')       # universal newlines on read
    if seen.get('args') != (actual.splitlines(), text.splitlines()):
        return False
    want, _ = text_rule(actual.splitlines(), text.splitlines())
    return (code == 0) == want


def k4_file_vs_file(actual: Optional[str], ref: Optional[str], many: bool) -> bool:
    """
    pre: (actual is None or len(actual) <= P['nc']) and (ref is None or len(ref) <= P['nc'])
    post: __return__
    """
    files = {}
    if ref is not None:
        files['/ref/r.txt'] = ref
    if actual is not None:
        files['/out/a.txt'] = actual
    fs = fakefs.FakeFS(files)
    with fakefs.patched(fs, cf):
        fc = FilesComparison(verbose=False, tmp_dir='/tmp/T')
        if many:
            code, msgs = fc.check_files(['/out/a.txt', '/out/a.txt'], ['/ref/r.txt', '/ref/r.txt'])
            code = 1 if code else 0
        else:
            code, msgs = fc.check_file('/out/a.txt', '/ref/r.txt')
    if ref is None or actual is None:
        return code == 1
    nl = lambda t: t.replace('\r\n', '\n').replace('\r', '\n')
    want, _ = text_rule(nl(actual).splitlines(), nl(ref).splitlines())
    return (code == 0) == want


def k4_encoding(ei: List[int], given: int) -> bool:
    """
    pre: len(ei) <= 3 and all(0 <= i < len(EXT_ALPHABET) for i in ei) and 0 <= given < 4
    post: __return__
    """
    from tdda.referencetest.utils import get_encoding
    ext = ''
    for i in ei:
        for k in range(len(EXT_ALPHABET)):
            if i == k:
                ext += EXT_ALPHABET[k]
                break
    path = '/ref/name' + ('.' + ext if ext else '')
    for k in range(4):
        if given == k:
            given = k
            break
    enc = [None, 'utf-8', 'UTF8', 'latin-1'][given]
    got = get_encoding(path, enc)
    if enc is not None:
        return got == ['utf-8', 'utf-8', 'utf-8', 'latin-1'][given]
    # no encoding given: pdf references are read as iso-8859-1, everything else as utf-8
    return got == ('iso-8859-1' if ext.lower() == 'pdf' else 'utf-8')


EXT_ALPHABET = 'pdfPtx'


def _obs():
    obs = []
    what = ('check_strings passes exactly when the reference rule does: same number of lines after removals, '
            'each pair equal after normalisation or excused by an ignore-substring, or - within the allowance - '
            'the unexcused lines are permutations')
    Q, T = 'quick', 'thorough'
    combos = [
        # (norm, ign, rem, perm, pre, nl, nc, tier, timeout)
        ('none', 0, 0, 0, 0, 2, 2, Q, 200),
        ('none', 1, 0, 0, 0, 2, 2, Q, 300),
        ('none', 0, 1, 0, 0, 2, 1, Q, 300),
        ('none', 0, 0, 1, 0, 2, 1, Q, 300),
        ('none', 0, 0, 0, 1, 2, 1, Q, 200),
        ('surrogate', 0, 0, 0, 0, 2, 2, Q, 300),
        ('surrogate', 1, 1, 0, 0, 2, 1, Q, 300),
        ('none', 1, 1, 1, 1, 2, 1, Q, 300),
                ('strip', 0, 0, 0, 0, 2, 2, T, 2400),
        ('none', 0, 1, 0, 0, 2, 2, T, 2400),
        ('none', 1, 1, 0, 0, 2, 2, T, 2400),
        ('none', 0, 0, 1, 0, 2, 2, T, 2400),
        ('none', 0, 0, 1, 0, 3, 1, T, 2400),
        ('none', 0, 0, 0, 0, 3, 2, T, 2400),
        ('surrogate', 1, 1, 1, 1, 2, 2, T, 2400),
    ]
    for combo in combos:
        norm, ign, rem, perm, pre, nl, nc, tier, to = combo[:9]
        alpha = combo[9] if len(combo) > 9 else None
        exact = bool(combo[10]) if len(combo) > 10 else False
        obs.append(Ob('K1', 'k1_decision', what,
                      'actual, expected: %s%d lines of %s%d symbolic characters%s; normaliser=%s ignore_substrings=%s '
                      'remove_lines=%s max_permutation_cases=%s preprocess=%s'
                      % ('exactly ' if exact else '<=', nl, 'exactly ' if exact else '<=', nc,
                         (' over the alphabet %r' % alpha) if alpha else '', norm, ['#'] if ign else [],
                         ['!'] if rem else [], 2 if perm else 0, 'drop-first-line' if pre else None),
                      param={'norm': norm, 'ign': ign, 'rem': rem, 'perm': perm, 'pre': pre, 'nl': nl, 'nc': nc,
                             'alpha': alpha, 'exact': exact},
                      timeout=to, tier=tier,
                      stubs=['FilesComparison.reconstruct / add_failures -> empty bodies (formatting only)']
                      + (['normalize_function -> surrogate normaliser (drop one leading "_"); the real '
                          'strip/lstrip/rstrip is K1 k1_normalizer'] if norm == 'surrogate' else [])))
    obs.append(Ob('K1', 'k1_perm_three', what, 'actual, expected: exactly 3 one-letter lines each over {a,b,c} (symbolic '
                  'index per line); max_permutation_cases=2 (so that more lines can differ than the allowance)',
                  timeout=300, stubs=['FilesComparison.reconstruct / add_failures -> empty bodies (formatting only)']))
    obs.append(Ob('K1', 'k1_normalizer', 'normalize_function(l, r) is s / s.lstrip() / s.rstrip() / s.strip()',
                  's: any string len<=3; l, r symbolic', timeout=120))
    for ign, rem, perm, pre, pat, nl, nc, tier, to in ((1, 1, 1, 0, 0, 2, 2, Q, 300), (0, 0, 0, 1, 1, 2, 2, Q, 300),
                                                       (1, 1, 1, 1, 1, 3, 2, T, 2400)):
        obs.append(Ob('K2', 'k2_identity', 'identical content passes under every option combination',
                      'lines: <=%d lines of <=%d symbolic characters; lstrip/rstrip symbolic; ignore_substrings=%s '
                      'remove_lines=%s max_permutation_cases=%s preprocess=%s ignore_patterns=%s'
                      % (nl, nc, ['#'] if ign else [], ['!'] if rem else [], 2 if perm else 0,
                         'drop-first-line' if pre else None, [r'\d+'] if pat else None),
                      param={'ign': ign, 'rem': rem, 'perm': perm, 'pre': pre, 'pat': pat, 'nl': nl, 'nc': nc},
                      timeout=to, tier=tier))
    for name, alpha, nc, tier, to in (('digits', '12x', 3, Q, 300), ('ab', 'abx', 3, Q, 300),
                                      ('xline', 'xy1', 3, Q, 200), ('lower', 'a1', 3, Q, 300),
                                      ('digits', '12x ', 4, T, 3000), ('lower', 'ab1', 3, T, 3000),
                                      ('lower', 'ab1 ', 4, T, 3000)):
        obs.append(Ob('K3', 'k3_patterns', 'with ignore_patterns=[p] two lines are accepted exactly when they differ '
                      'only in parts matched by p (declarative reading: equal, or both split l.m.r with m, m\' full '
                      'matches of p and l~l\', r~r\')',
                      'pattern %r; a, e: symbolic strings len<=%d over the alphabet %r' % (PATTERNS[name][0], nc, alpha),
                      param={'pattern': name, 'alpha': alpha, 'nc': nc}, timeout=to, tier=tier, lift='lift_patterns'))
    obs.append(Ob('K4', 'k4_encoding', 'the encoding a reference is read with: the one given (utf8 normalised), else '
                  'iso-8859-1 for .pdf names and utf-8 for every other name, extensionless names included',
                  'extension: every string len<=3 over %r (symbolic index per position); encoding None/utf-8/UTF8/'
                  'latin-1' % EXT_ALPHABET, timeout=300))
    obs.append(Ob('K4', 'k4_string_vs_file', 'check_string_against_file hands check_strings exactly splitlines() of '
                  'both texts and returns its verdict; a missing reference is a failure',
                  'actual, reference: any strings len<=2 (reference may be absent)', param={'nc': 2}, timeout=300,
                  stubs=['fakefs (in-memory open/os)', 'reconstruct/add_failures empty']))
    obs.append(Ob('K4', 'k4_file_vs_file', 'check_file / check_files read both files and pass exactly when the rule '
                  'does; a missing reference or actual file is a failure, never an exception',
                  'actual, reference: any strings len<=2, either may be absent; single or list entry point',
                  param={'nc': 2}, timeout=300, stubs=['fakefs (in-memory open/os)', 'reconstruct/add_failures empty']))
    return obs


OBLIGATIONS = _obs()
ASSUMPTIONS = ['the comparison\'s own final-newline rule (one trailing empty line dropped on each side) is part of the '
               'reference rule', 'ignore_patterns oracle: patterns of the menu only (for alternations whose branches '
               'are prefixes of one another the declarative reading and any regex-driven split can differ)']
OUTSIDE = ['chardet / real encodings', 'texts beyond the stated line/character bounds',
           'assertion wrappers in referencetest.py (C10/C15 harnesses drive them)']
