"""C14 - rexpy results depend only on the multiset of examples and the seed."""
import re
from typing import List, Optional, Tuple

from vp.ob import Ob
from vp import rt
from vp.doubles.fakerandom import FakeRandom

import tdda.rexpy.rexpy as rx
from vp.harness import rexpy_common
rexpy_common.memoise_categories()
from tdda.rexpy.rexpy import Extractor, Examples, Size, to_vrles, expand_or_falsify_vrle, cre, RE_FLAGS

P = rt.param({})
SIGS = [('C', '.'), ('C', ' '), ('.', 'C')]


# ---- K1: to_vrles is order-independent -------------------------------------------------------
def k1_vrles_order(counts: List[Tuple[int, int]], sig: List[int], i: int, j: int) -> bool:
    """
    pre: 2 <= len(counts) <= P['n'] and len(sig) == len(counts)
    pre: all(1 <= a and 1 <= b for (a, b) in counts)
    pre: all(0 <= s < P['nsig'] for s in sig)
    pre: 0 <= i < j < len(counts)
    post: __return__
    """
    rles = [((SIGS[s][0], a), (SIGS[s][1], b)) for (a, b), s in zip(counts, sig)]
    swapped = list(rles)
    swapped[i], swapped[j] = swapped[j], swapped[i]
    v1, _, m1 = to_vrles(list(rles))
    v2, _, m2 = to_vrles(swapped)
    return v1 == v2 and m1 == m2


# ---- K2: folding expand_or_falsify_vrle is order-independent ------------------------------------
def _fold(rles, fixed, variable):
    v = None
    for r in rles:
        v = expand_or_falsify_vrle(r, v, fixed=fixed, variableLength=variable)
    return v


def k2_expand_order(a1: int, b1: int, a2: int, b2: int, a3: int, b3: int, l1: int, l2: int, l3: int,
                    c2: int, fixed: bool) -> bool:
    """
    pre: min(a1, b1, a2, b2, a3, b3) >= 1
    pre: 1 <= l1 <= 2 and 1 <= l2 <= 2 and 1 <= l3 <= 2 and 0 <= c2 <= 1
    pre: P['variable'] or (l1 == l2 == l3)
    post: __return__
    """
    variable = P['variable']
    second = 'b' if c2 == 0 else 'x'
    r1 = [('a', a1), ('b', b1)][:l1]
    r2 = [('a', a2), (second, b2)][:l2]
    r3 = [('a', a3), ('b', b3)][:l3]
    if P['nr'] == 2:
        return _fold([r1, r2], fixed, variable) == _fold([r2, r1], fixed, variable)
    x = _fold([r1, r2, r3], fixed, variable)
    y = _fold([r3, r1, r2], fixed, variable)
    z = _fold([r2, r3, r1], fixed, variable)
    return x == y and y == z


# ---- K3: list / dict / repeats ---------------------------------------------------------------------
STRS = ['ab', 'cd', '12']


def k3_clean_forms(mult: List[int], order: int) -> bool:
    """
    pre: len(mult) == 3 and all(0 <= m <= 3 for m in mult)
    pre: 0 <= order < 3
    post: __return__
    """
    perm = [[0, 1, 2], [2, 0, 1], [1, 2, 0]][order]
    as_list = []
    for k in perm:
        as_list.extend([STRS[k]] * mult[k])
    as_dict = {STRS[k]: mult[k] for k in perm}
    xl = Extractor(as_list, extract=False)
    xd = Extractor(as_dict, extract=False)
    dl = dict(zip(xl.examples.strings, xl.examples.freqs))
    dd = dict(zip(xd.examples.strings, xd.examples.freqs))
    want = {s: m for s, m in zip(STRS, mult) if m > 0}
    if dl != want or dd != want:
        return False
    # with default pruning nothing is ever deleted, so frequencies cannot change the result
    if xl.find_bad_patterns(list(mult)) != set():
        return False
    return True


def _plain_ilist(L=None):
    # array('i').extend(generator) is mis-modelled by CrossHair 0.0.110 (TypeError: generator has no len());
    # a plain list has the same semantics for every use rexpy makes of it
    return list(L or [])


# ---- K4: PRNG discipline ---------------------------------------------------------------------------
EXAMPLE_SETS = [['ab', '12', '#'], [], [None], ['']]


def k4_prng(do_all: int, dae: int, msa: int, picks: List[int], seeded: bool, seed_zero: bool, which: int) -> bool:
    """
    pre: 1 <= do_all <= P['k'] and 1 <= dae <= P['k'] and 0 <= msa <= 1 and len(picks) <= 3
    pre: all(0 <= p < 3 for p in picks) and 0 <= which < len(EXAMPLE_SETS)
    post: __return__
    """
    examples = EXAMPLE_SETS[0]
    for k in range(len(EXAMPLE_SETS)):
        if which == k:
            examples = EXAMPLE_SETS[k]      # (also: nothing to extract from - empty, only nulls, only empties)
    fr = FakeRandom(picks)
    saved = rx.random
    saved_ilist = rx.ilist
    rx.random = fr
    rx.ilist = _plain_ilist
    try:
        Extractor(list(examples), size=Size(do_all=do_all, do_all_exceptions=dae, max_sampled_attempts=msa),
                  seed=(0 if seed_zero else 3) if seeded else None, remove_empties=True)
    finally:
        rx.random = saved
        rx.ilist = saved_ilist
    log = fr.log
    if not seeded:
        return all(e == 'sample' for e in log)
    # seeded: replay the log over an abstract generator state.  Every sample must be drawn from a stream
    # started by seed(3) (never from the caller's stream), every setstate must put back a state that was
    # saved, and at the end the generator is back in the caller's state.
    cur = 'CALLER'
    saved_states = {}
    for idx, e in enumerate(log):
        if e == 'getstate':
            saved_states[('STATE', idx + 1)] = cur
        elif e == 'sample':
            if cur == 'CALLER':
                return False
            cur = ('SEEDED', cur[1] + 1)
        elif e[0] == 'seed':
            if e[1] != (0 if seed_zero else 3):
                return False
            cur = ('SEEDED', 0)
        elif e[0] == 'setstate':
            if e[1] not in saved_states:
                return False
            cur = saved_states[e[1]]
    return cur == 'CALLER'


def lift_k4(do_all, dae, msa, picks, seeded, seed_zero=False, which=0):
    """public API with the real random module: seeded calls reproducible and leave the global PRNG untouched"""
    import random
    ex = ['ab', '12', '#', 'cd ef', 'A-1'] if which == 0 else EXAMPLE_SETS[which]
    kw = dict(size=Size(do_all=do_all, do_all_exceptions=dae, max_sampled_attempts=msa), remove_empties=True)
    if not seeded:
        return True
    outs = []
    ok = True
    for pre in (11, 22, 33, 44, 55, 66):
        random.seed(pre)
        before = random.getstate()
        outs.append(rx.extract(list(ex), seed=0 if seed_zero else 3, **kw))
        ok = ok and random.getstate() == before
    return ok and all(o == outs[0] for o in outs)


# ---- K6: the whole pipeline is order-independent on tiny inputs ---------------------------------------------
def k6_pipeline_order(ai: List[int], di: List[int]) -> bool:
    """
    pre: len(ai) == 3 and len(di) == 3 and all(0 <= i < 3 for i in ai) and all(0 <= i < P['nd'] for i in di)
    post: __return__
    """
    def pick(i, menu):
        for k in range(len(menu)):
            if i == k:
                return menu[k]
        return menu[-1]
    # (the third first-field value brings a character class the other two lack, so that characters collected
    # beyond the per-fragment string cap matter)
    ex = [pick(a, ['ab', 'cd', 'e7']) + '-' + pick(d, ['1', '33', '2']) for a, d in zip(ai, di)]
    kw = dict(size=Size(max_strings_in_group=P['cap']), variableLengthFrags=bool(P.get('vlf')))
    base = rx.extract(list(ex), **kw)
    for perm in ((0, 2, 1), (1, 0, 2), (2, 1, 0)):
        if rx.extract([ex[i] for i in perm], **kw) != base:
            return False
    counts = {}
    for e in reversed(ex):
        counts[e] = counts.get(e, 0) + 1
    if rx.extract(counts, **kw) != base:
        return False
    # repeating an example changes nothing, and a second call gives the same list
    return rx.extract(list(ex) + [ex[0]], **kw) == base and rx.extract(list(ex), **kw) == base


SAMPLED_ALPHABET = 'a-_'
XL_MENU = [None, '-', '_-']


def _text(idx, alphabet):
    out = ''
    for i in idx:
        for k in range(len(alphabet)):
            if i == k:
                out += alphabet[k]
                break
    return out


def k6_sampled_order(i1: List[int], i2: List[int], i3: List[int], xl: int, picks: List[int], da: int) -> bool:
    """
    pre: len(i1) <= 2 and len(i2) <= P['len2'] and len(i3) <= P['len3']
    pre: all(0 <= i < len(SAMPLED_ALPHABET) for i in i1 + i2 + i3)
    pre: xl == P['xl'] and len(picks) <= 1 and all(0 <= p < 3 for p in picks) and da == P['da']
    post: __return__
    """
    # a Size that forces extraction to start from a sample: with a seed, the result may depend on the seed but
    # not on the order in which the same examples were supplied
    ex = [_text(i1, SAMPLED_ALPHABET), _text(i2, SAMPLED_ALPHABET), _text(i3, SAMPLED_ALPHABET)]
    extra = None
    for k in range(len(XL_MENU)):
        if xl == k:
            extra = XL_MENU[k]
    da = 2 if da == 2 else 1
    saved = rx.ilist, rx.random
    rx.ilist = rexpy_common.plain_ilist

    def run(examples):
        # a seeded generator: the same seed gives the same index choices for populations of the same size,
        # whatever the strings are - one FakeRandom per call, each replaying the same (arbitrary) picks
        rx.random = FakeRandom(list(picks))
        return rx.extract(examples, size=Size(do_all=da, do_all_exceptions=1, n_per_length=1), seed=1,
                          extra_letters=extra)
    try:
        base = run(list(ex))
        for perm in ((0, 2, 1), (1, 0, 2), (2, 1, 0), (1, 2, 0)):
            if run([ex[i] for i in perm]) != base:
                return False
    finally:
        rx.ilist, rx.random = saved
    return True


def lift_k6_sampled(i1, i2, i3, xl, picks, da):
    """public API, real generator: some seed must show the same order dependence"""
    ex = [_text(i1, SAMPLED_ALPHABET), _text(i2, SAMPLED_ALPHABET), _text(i3, SAMPLED_ALPHABET)]
    for seed in range(10):
        kw = dict(size=Size(do_all=da, do_all_exceptions=1, n_per_length=1), seed=seed, extra_letters=XL_MENU[xl])
        base = rx.extract(list(ex), **kw)
        for perm in ((0, 2, 1), (1, 0, 2), (2, 1, 0), (1, 2, 0)):
            if rx.extract([ex[i] for i in perm], **kw) != base:
                return False
    return True


# ---- K5: memo transparency ---------------------------------------------------------------------------
MEMO_MENU = ['^a+$', '^[0-9]{2}$', '^\\s*x$']


def k5_memo(seq: List[int]) -> bool:
    """
    pre: len(seq) <= 4 and all(0 <= i < 3 for i in seq)
    post: __return__
    """
    for i in seq:
        c = cre(MEMO_MENU[i])
        if c.pattern != MEMO_MENU[i] or (c.flags & RE_FLAGS) != RE_FLAGS:
            return False
    return True


def _obs():
    obs = []
    for n, nsig, tier, to in ((2, 3, 'quick', 120), (3, 1, 'thorough', 1800), (3, 3, 'thorough', 3000),
                              (4, 2, 'thorough', 1800)):
        obs.append(Ob('K1', 'k1_vrles_order', 'to_vrles gives the same list (and signature map) when two inputs '
                      'are swapped', '2..%d rles x 2 fragments, %d signature(s), counts any ints >= 1, any '
                      'transposition' % (n, nsig), param={'n': n, 'nsig': nsig}, timeout=to, tier=tier))
    for variable, nr, tier, to in ((False, 2, 'quick', 240), (True, 2, 'quick', 240), (False, 3, 'thorough', 900),
                                   (True, 3, 'thorough', 1800)):
        obs.append(Ob('K2', 'k2_expand_order', 'folding expand_or_falsify_vrle over run-length encodings gives '
                      'the same result whatever the order',
                      '%d rles of 1..2 fragments (same length unless variableLength), counts any ints >= 1, one '
                      'fragment code symbolic (so falsification is reachable), fixed symbolic; variableLength=%s; '
                      '%s' % (nr, variable, 'both orders' if nr == 2 else 'all three rotations'),
                      param={'variable': variable, 'nr': nr}, timeout=to, tier=tier))
    obs.append(Ob('K3', 'k3_clean_forms', 'clean() yields the same strings and frequencies for a list (any order, '
                  'repeats) and the equivalent frequency dict; default pruning deletes nothing',
                  '3 concrete strings with symbolic multiplicities 0..3; 3 orderings', timeout=240))
    obs.append(Ob('K4', 'k4_prng', 'with a seed every random.sample is drawn after seed(seed) and before the saved '
                  'state is put back, and the caller\'s state is restored last; without a seed the generator is '
                  'only sampled', 'real Extractor on 3 examples, or none / only a null / only an empty string; Size(do_all 1..2, do_all_exceptions 1..2, '
                  'max_sampled_attempts 0..1) symbolic; <=3 symbolic sample picks; seed None / 0 / 3 symbolic',
                  param={'k': 2}, timeout=300, lift='lift_k4', stubs=['random -> FakeRandom (recording)', 'rexpy.ilist -> plain list (CrossHair cannot extend an array from a generator)']))
    for cap, vlf, tier in ((1, False, 'quick'), (10, False, 'thorough'), (1, True, 'thorough')):
        obs.append(Ob('K6', 'k6_pipeline_order', 'end to end on tiny inputs: the list returned by the real extract() is '
                      'the same for every ordering of the examples, for the frequency-dictionary form, with an '
                      'example repeated, and on a second call',
                      '3 examples <ab|cd|e7>-<1|33[|2]> (symbolic indexes, repeats included); '
                      'Size.max_strings_in_group=%d (so that the per-fragment string cap is inside the bound); '
                      'variableLengthFrags=%s' % (cap, vlf), param={'cap': cap, 'vlf': vlf, 'nd': 2 if tier == 'quick' else 3},
                      timeout=1000 if tier == 'quick' else 3000, tier=tier))
    for xl, da, len2, len3, tier in ((2, 1, 1, 0, 'quick'), (0, 1, 1, 0, 'thorough'), (2, 2, 1, 0, 'thorough'),
                                     (1, 1, 2, 0, 'thorough'), (2, 1, 1, 1, 'thorough')):
        obs.append(Ob('K6', 'k6_sampled_order', 'end to end when extraction starts from a sample (forced by a tiny '
                      'Size) and a seed is given: every ordering of the same examples gives the same list',
                      '3 strings of lengths <=2, <=%d, <=%d over the alphabet %r (symbolic index per position); '
                      'extra_letters %r; <=1 symbolic sample pick replayed identically for every ordering (a seeded '
                      'generator); Size(do_all %d, do_all_exceptions 1, n_per_length 1); 5 orderings'
                      % (len2, len3, SAMPLED_ALPHABET, XL_MENU[xl], da),
                      param={'len2': len2, 'len3': len3, 'xl': xl, 'da': da},
                      timeout=900 if tier == 'quick' else 3000, tier=tier, lift='lift_k6_sampled',
                      stubs=['random -> FakeRandom replaying the same picks on every call',
                             'rexpy.ilist -> plain list (CrossHair cannot extend an array from a generator)']))
    obs.append(Ob('K5', 'k5_memo', 'cre(p) returns a pattern object for exactly p with RE_FLAGS, whatever was '
                  'compiled before (shared memo)', 'any sequence of <=4 calls over 3 patterns', timeout=120))
    return obs


OBLIGATIONS = _obs()
ASSUMPTIONS = ['FakeRandom: sample returns an arbitrary subset; state calls are only logged']
OUTSIDE = ['order-independence of refine_fragments/merge_patterns on real strings beyond K1-K3 (sets and sorted() '
           'are used; not encoded)', 'pandas Series input form']
