"""C19 - tagged runs execute exactly the tagged tests; listing runs none."""
from typing import List
import unittest

from vp.ob import Ob
from vp import rt
from vp.harness import argv_common as ac
from tdda.referencetest import referencetestcase as rtc
from tdda.referencetest.referencetest import tag

P = rt.param({})


# ---- K1: argv -------------------------------------------------------------
def k1_argv(clusters: List[str], widx: List[int]) -> bool:
    """
    pre: ac.shape_ok(P['shape'], clusters, widx, 0)
    post: __return__
    """
    args = ac.build(P['shape'], clusters, widx)
    out, tagged, check, regen, kinds = ac.run_real(args, ac.TAILS[P['tail']])
    eo, et, ec, er, ek = ac.oracle(args, kinds)
    return out[1:] == eo and bool(tagged) == et and bool(check) == ec


def _argv_obs(kernel, fn, what):
    obs = []
    Q, T = 'quick', 'thorough'
    for shape, tail, tier, to in (
            [('', t, Q, 30) for t in range(4)] + [('1', t, Q, 60) for t in range(4)] +
            [('2', t, Q, 90) for t in range(4)] + [('W', t, Q, 60) for t in range(4)] +
            [(s, 0, Q, 120) for s in ('11', '12', '21', '1W', 'W1', '2W', 'W2', 'WW')] +
            [(s, 0, T, 900) for s in ('22', '3', '111', '1W1', 'W11', '11W', 'WW1', 'W1W', '1WW', 'WWW',
                                      '112', '121', '211')] +
            [(s, t, T, 900) for s in ('11', '1W', 'W1', 'WW') for t in (1, 2, 3)]):
        obs.append(Ob(kernel, fn, what,
                      'argv shape %r (digit n = symbolic single-dash cluster of exactly n flag letters, each any '
                      'character but "-" and space; W = any of %d menu words by symbolic index) followed by '
                      'the concrete tail %r' % (shape, len(ac.WORDS), ac.TAILS[tail]),
                      param={'shape': shape, 'tail': tail}, timeout=to, tier=tier))
    return obs



# ---- K2/K3: loader -------------------------------------------------------
def _mk_classes(t1, t2, tc, tb, u1, uc, ti=False):
    """Two classes built per path: C (test_a, test_b) on a possibly tagged base, D (test_x)."""
    class Base(unittest.TestCase):
        pass
    if tb:
        Base = tag(Base)

    def mi(self):
        pass
    if ti:
        mi = tag(mi)
    Base.test_i = mi            # a test method C inherits rather than defines

    def m1(self):
        pass

    def m2(self):
        pass

    def mx(self):
        pass
    if t1:
        m1 = tag(m1)
    if t2:
        m2 = tag(m2)
    if u1:
        mx = tag(mx)
    Base.__module__ = 'vpmod'
    Base.__qualname__ = Base.__name__ = 'Base'
    C = type('C', (Base,), {'test_a': m1, 'test_b': m2, '__module__': 'vpmod'})
    if tc:
        C = tag(C)
    D = type('D', (unittest.TestCase,), {'test_x': mx, '__module__': 'vpmod'})
    if uc:
        D = tag(D)
    return C, D


def k2_names(t1: bool, t2: bool, tc: bool, tb: bool, ti: bool) -> bool:
    """
    post: __return__
    """
    C, D = _mk_classes(t1, t2, tc, tb, False, False, ti)
    got = list(rtc.TaggedTestLoader(False).getTestCaseNames(C))
    want = [n for n, t in (('test_a', t1), ('test_b', t2), ('test_i', ti)) if t or tc or tb]
    return got == want


def _flatten(suite, out):
    for t in suite:
        if isinstance(t, unittest.TestSuite):
            _flatten(t, out)
        else:
            out.append('%s.%s' % (type(t).__name__, t._testMethodName))
    return out


def k3_suite(t1: bool, t2: bool, tc: bool, tb: bool, u1: bool, uc: bool, check: bool, how: int, ti: bool) -> bool:
    """
    pre: 0 <= how < 4
    post: __return__
    """
    import types
    C, D = _mk_classes(t1, t2, tc, tb, u1, uc, ti)
    mod = types.ModuleType('vpmod')
    mod.C = C
    mod.D = D
    mod.Base = C.__mro__[1]         # the (possibly tagged) base class is collected as well
    printed = []
    loader = rtc.TaggedTestLoader(check, printer=printed.append)
    if how == 0:
        suite = loader.loadTestsFromModule(mod)
    elif how == 1:
        suite = loader.loadTestsFromNames(['C', 'D', 'Base'], mod)
    elif how == 2:
        suite = unittest.TestSuite([loader.loadTestsFromTestCase(C), loader.loadTestsFromTestCase(D),
                                    loader.loadTestsFromTestCase(mod.Base)])
    else:
        suite = loader.loadTestsFromName('C', mod)
    got = sorted(_flatten(suite, []))
    wantC = ['C.' + n for n, t in (('test_a', t1), ('test_b', t2), ('test_i', ti)) if t or tc or tb]
    wantD = ['D.test_x'] if (u1 or uc) else []
    wantB = ['Base.test_i'] if (ti or tb) else []      # tagging the subclass C must not tag Base's own tests
    if how == 3:
        wantD = []
        wantB = []
    if check:
        classes = (['vpmod.Base'] if wantB else []) + (['vpmod.C'] if wantC else []) + (['vpmod.D'] if wantD else [])
        return got == [] and sorted(printed) == classes
    return got == sorted(wantB + wantC + wantD) and printed == []


class _Item:
    def __init__(self, name, obj):
        self.name = name
        self.obj = obj


def k4_pytest(t1: bool, t2: bool, tc: bool, tf: bool, run: bool, show: bool) -> bool:
    """
    post: __return__
    """
    from tdda.referencetest import referencepytest as rp
    import io
    import contextlib

    class K:
        def test_a(self):
            pass

        def test_b(self):
            pass
    K.__module__ = 'vpmod'
    if t1:
        K.test_a = tag(K.test_a)
    if t2:
        K.test_b = tag(K.test_b)
    if tc:
        K = tag(K)

    def test_f():
        pass
    test_f.__module__ = 'vpmod'
    if tf:
        test_f = tag(test_f)
    k = K()
    items = [_Item('test_a', k.test_a), _Item('test_b', k.test_b), _Item('test_f', test_f)]
    opts = {'--tagged': run, '--istagged': show}

    class Cfg:
        def getoption(self, name, default=None):
            return opts.get(name, default)
    buf = io.StringIO()
    with contextlib.redirect_stdout(buf):
        rp.tagged(Cfg(), items)
    names = [i.name for i in items]
    want = [n for n, t in (('test_a', t1 or tc), ('test_b', t2 or tc), ('test_f', tf)) if t]
    if show:
        lines = [ln.split('.')[-1] for ln in buf.getvalue().splitlines() if ln]
        wl = (['K'] if (t1 or t2 or tc) else []) + (['test_f'] if tf else [])
        return names == [] and lines == wl
    if run:
        return names == want
    return names == ['test_a', 'test_b', 'test_f']


OBLIGATIONS = _argv_obs(
    'K1', 'k1_argv',
    'for every argv, _set_flags_from_argv returns (argv minus tdda flags in order, tagged, check) '
    'with tagged/check set iff -1/--tagged resp. -0/--istagged occurs anywhere')
OBLIGATIONS += [
    Ob('K2', 'k2_names', 'TaggedTestLoader.getTestCaseNames returns exactly the methods tagged themselves, or all '
       'when the class or a base class is tagged', 'class with 2 own test methods and 1 inherited; 5 symbolic tag booleans (method a, '
       'method b, inherited method, class, base class)', timeout=60),
    Ob('K3', 'k3_suite', 'loading through the tagged loader (module / names / per-class / single name): run mode '
       'keeps exactly the tagged tests, each once, prints nothing; list mode keeps no test and prints exactly the '
       'classes holding a tagged test, each once',
       'two generated TestCase classes (2 own + 1 inherited, and 1 method), 7 symbolic tag booleans, check flag, 4 loading routes',
       timeout=240),
    Ob('K4', 'k4_pytest', 'referencepytest.tagged leaves exactly the tagged items under --tagged, none under '
       '--istagged (printing each tagged class/function once), all otherwise',
       '3 items (2 bound methods of one class, 1 function); 4 tag booleans, 2 option booleans',
       timeout=120, stubs=['pytest config/items: plain objects with getoption / name / obj']),
]
ASSUMPTIONS = ['long tdda options occur at most once per command line; nothing but kind names follows --write']
OUTSIDE = ['unittest.main itself; argv longer than the bound']
