"""C19 - tagged runs execute exactly the tagged tests; listing runs none."""
from typing import List
import unittest

from vp.ob import Ob
from vp import rt
from vp.harness import argv_common as ac
from tdda.referencetest import referencetestcase as rtc
from tdda.referencetest.referencetest import tag

P = rt.param({})


# ---- K1: argv -------------------------------------------------------------
def k1_argv(clusters: List[str], widx: List[int]) -> bool:
    """
    pre: ac.shape_ok(P['shape'], clusters, widx, 0)
    post: __return__
    """
    args = ac.build(P['shape'], clusters, widx)
    out, tagged, check, regen, kinds = ac.run_real(args, ac.TAILS[P['tail']])
    eo, et, ec, er, ek = ac.oracle(args, kinds)
    return out[1:] == eo and bool(tagged) == et and bool(check) == ec


def _argv_obs(kernel, fn, what):
    obs = []
    Q, T = 'quick', 'thorough'
    for shape, tail, tier, to in (
            [('', t, Q, 30) for t in range(4)] + [('1', t, Q, 60) for t in range(4)] +
            [('2', t, Q, 90) for t in range(4)] + [('W', t, Q, 60) for t in range(4)] +
            [(s, 0, Q, 120) for s in ('11', '12', '21', '1W', 'W1', '2W', 'W2', 'WW')] +
            [(s, 0, T, 900) for s in ('22', '3', '111', '1W1', 'W11', '11W', 'WW1', 'W1W', '1WW', 'WWW',
                                      '112', '121', '211')] +
            [(s, t, T, 900) for s in ('11', '1W', 'W1', 'WW') for t in (1, 2, 3)]):
        obs.append(Ob(kernel, fn, what,
                      'argv shape %r (digit n = symbolic single-dash cluster of exactly n flag letters, each any '
                      'character but "-" and space; W = any of %d menu words by symbolic index) followed by '
                      'the concrete tail %r' % (shape, len(ac.WORDS), ac.TAILS[tail]),
                      param={'shape': shape, 'tail': tail}, timeout=to, tier=tier))
    return obs


OBLIGATIONS = _argv_obs(
    'K1', 'k1_argv',
    'for every argv, _set_flags_from_argv returns (argv minus tdda flags in order, tagged, check) '
    'with tagged/check set iff -1/--tagged resp. -0/--istagged occurs anywhere')
ASSUMPTIONS = ['long tdda options occur at most once per command line; nothing but kind names follows --write']
OUTSIDE = ['unittest.main itself; argv longer than the bound']
