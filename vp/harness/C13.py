"""C13 - every expression rexpy returns compiles, is anchored, earns its place."""
import re
from typing import List, Optional, Tuple

from vp.ob import Ob
from vp import rt

import tdda.rexpy.rexpy as rx
from tdda.rexpy.rexpy import (Extractor, RE_FLAGS, to_vrles, capture_group, ResultsSummary, signature)

try:
    import re._parser as sre_parse
except ImportError:     # pragma: no cover
    import sre_parse

from vp.harness import rexpy_common
rexpy_common.memoise_categories()

P = rt.param({})
DIALECT = P.get('dialect', 'portable')
EXTRA = P.get('extra')
X = Extractor(['a' + (EXTRA or '')], extract=False, dialect=DIALECT, extra_letters=EXTRA)
XS = Extractor([' a' + (EXTRA or '')], extract=False, dialect=DIALECT, extra_letters=EXTRA, strip=True)
assert XS.n_stripped > 0
CODES = sorted(X.Cats.code2cat) if hasattr(X.Cats, 'code2cat') else None
if CODES is None:
    X.Cats.build_cat_map()
    CODES = sorted(X.Cats.code2cat)
FIXED = ['a', '\\.', '[#%]', 'ab', '\\-\\-', '_']
# an instance of each fixed piece / a sample character of each category is found concretely at import
SAMPLE_CHARS = 'aZ5_ .-#é٣'


def _piece(pi):
    """-> (code-or-literal, fixed?)"""
    if pi < len(FIXED):
        return FIXED[pi], True
    return CODES[pi - len(FIXED)], False


NPIECES = len(FIXED) + len(CODES)
PAIR_MENU = [0, 1, len(FIXED) + CODES.index('D'), len(FIXED) + CODES.index(rx.UNIC)]


# ---- K1/K2: shape, anchoring and validity of rendered expressions -------------------------------------
def k1_render(p1: int, p2: int, m1: int, d1: int, m2: int, d2: int, tagged: bool, output: bool,
              strip: bool, n: int) -> bool:
    """
    pre: n == P['nfrag']
    pre: 0 <= p1 < NPIECES and 0 <= p2 < NPIECES
    pre: (p1 in PAIR_MENU and p2 in PAIR_MENU) if n == 2 else p2 == 0
    pre: 0 <= m1 <= 1 and -1 <= d1 <= 1
    pre: strip == P['strip']
    pre: (m2 == 1 and d2 in (-1, 0, 2)) if n == 2 else (m2 == 0 and d2 == 0)
    pre: n == 1 or (m1 == 1 and d1 in (-1, 0, 2))
    post: __return__
    """
    x = XS if strip else X
    frags = []
    for p, m, d in ((p1, m1, d1), (p2, m2, d2))[:n]:
        c, fixed = _piece(p)
        M = None if d < 0 else m + d
        if M == 0:
            M = 1
        frags.append((c, m, M, 'fixed') if fixed else (c, m, M))
    out = x.vrle2re(frags, tagged=tagged, output=output)
    if not (out.startswith('^') and out.endswith('$') and not out.endswith('\\$')):
        return False
    cr = re.compile(out, RE_FLAGS)       # must be a valid Python regex
    ngroups_untagged = re.compile(x.vrle2re(frags, tagged=False, output=output), RE_FLAGS).groups
    want_groups = ngroups_untagged + (sum(1 for f in frags if len(f) == 3 and not _self_grouped(x, f, output))
                                      if tagged else 0)
    return cr.groups == want_groups


def _self_grouped(x, frag, output):
    """a non-fixed fragment whose untagged text is already one parenthesised group is not wrapped again"""
    t = x.fragment2re(frag, tagged=False, output=output)
    return t.startswith('(') and t.endswith(')')


# ---- K3: tagging changes only grouping ----------------------------------------------------------------
def k3_tag_fragment(p: int, m: int, d: int, output: bool) -> bool:
    """
    pre: 0 <= p < NPIECES
    pre: 0 <= m <= 3 and -1 <= d <= 2
    post: __return__
    """
    c, fixed = _piece(p)
    M = None if d < 0 else max(m + d, 1)
    frag = (c, m, M, 'fixed') if fixed else (c, m, M)
    plain = X.fragment2re(frag, tagged=False, output=output)
    tagd = X.fragment2re(frag, tagged=True, output=output)
    if tagd != plain and tagd != '(' + plain + ')':
        return False
    if fixed and tagd != plain:
        return False
    # the quantified piece must be atomic for the parentheses to be neutral: re's own parse of the piece
    # is a single item (one char, escape, class or group)
    cats = X.OutCats if (output and X.dialect) else X.Cats
    piece = c if fixed else cats[c].re_string
    if plain != piece:      # a quantifier was appended
        if not fixed and len(sre_parse.parse(piece)) != 1:
            return False
    return True


def k3_capture_group(s: str) -> bool:
    """
    pre: len(s) <= P['n']
    pre: all(c in '()a|' for c in s)
    post: __return__
    """
    g = capture_group(s)
    if g == '(' + s + ')':
        return True
    return g == s and len(s) >= 2 and s[0] == '(' and s[len(s) - 1] == ')'


# ---- K4: counts -----------------------------------------------------------------------------------------
SIGS = [('C', '.'), ('C', ' '), ('.', 'C')]


def k4_vrles_unique(counts: List[Tuple[int, int]], sig: List[int]) -> bool:
    """
    pre: 1 <= len(counts) <= P['n'] and len(sig) == len(counts)
    pre: all(1 <= a and 1 <= b for (a, b) in counts)
    pre: all(0 <= s < 3 for s in sig)
    post: __return__
    """
    rles = [((SIGS[s][0], a), (SIGS[s][1], b)) for (a, b), s in zip(counts, sig)]
    vrles, by_sig, vrle_by_sig = to_vrles(list(rles))
    if len(set(vrles)) != len(vrles):
        return False
    sigs = [signature(v) for v in vrles]
    if len(set(sigs)) != len(sigs):
        return False
    # one per distinct input signature, and never more than distinct inputs
    return set(sigs) == set(signature(r) for r in rles) and len(vrles) <= len(set(rles))


def k4_prune(freqs: List[int], max_patterns: Optional[int], min_strings: int) -> bool:
    """
    pre: len(freqs) <= P['n'] and all(1 <= f <= 4 for f in freqs)
    pre: max_patterns is None or 1 <= max_patterns <= 4
    pre: 1 <= min_strings <= 3
    post: __return__
    """
    x = Extractor(['a'], extract=False, max_patterns=max_patterns, min_strings_per_pattern=min_strings)
    dele = x.find_bad_patterns(list(freqs))
    n = len(freqs)
    if not all(0 <= i < n for i in dele):
        return False
    keep = [i for i in range(n) if i not in dele]
    if max_patterns is not None and len(keep) > max_patterns:
        return False
    if min_strings > 1 and any(freqs[i] < min_strings for i in keep):
        return False
    # survivors are the most frequent: nothing deleted for rank is more frequent than a survivor of rank
    if max_patterns is not None:
        ranked = [i for i in range(n) if min_strings <= 1 or freqs[i] >= min_strings]
        for i in ranked:
            if i in dele:
                better = sum(1 for k in range(n) if freqs[k] > freqs[i] or (freqs[k] == freqs[i] and k < i))
                if better < max_patterns:
                    return False
    elif min_strings <= 1 and dele:
        return False
    # applying the deletions
    rex = ['^r%d$' % i for i in range(n)]
    rs = ResultsSummary([], None, [], None, list(range(n)), list(rex), list(rex), extractor=x)
    rs.remove(dele)
    return rs.rex == [rex[i] for i in keep] and rs.refined_vrles == keep and rs.refrags == rs.rex


# ---- K5: group limit ---------------------------------------------------------------------------------------
def k5_group_limit(s: str) -> bool:
    """
    pre: len(s) <= P['n']
    post: __return__
    """
    saved = rx.MAX_GROUPS
    rx.MAX_GROUPS = 2
    try:
        x = Extractor(['a'], extract=False)
        rle = x.run_length_encode_coarse_classes(s)
    finally:
        rx.MAX_GROUPS = saved
    if len(rle) <= 2:
        return sum(n for c, n in rle) == len(s)
    return False if s == '' else False


def k5_fallback(s: str) -> bool:
    """
    pre: len(s) <= P['n']
    post: __return__
    """
    saved = rx.MAX_GROUPS
    rx.MAX_GROUPS = 2
    try:
        x = Extractor(['a'], extract=False)
        rle = x.run_length_encode_coarse_classes(s)
        direct = rx.run_length_encode(x.coarse_classify(s))
    finally:
        rx.MAX_GROUPS = saved
    if len(direct) <= 2:
        return rle == direct and x.n_too_many_groups == 0
    return rle == ((rx.CODE.ANY, len(s)),) and x.n_too_many_groups == 1


# ---- K2b/K6: composition made explicit - the C03 lemmas C13 leans on, and the whole pipeline on tiny inputs ------
E2E_ALPHABET = 'a1.{}'


def k2_escape_literal(c: str) -> bool:
    """
    pre: len(c) == 1
    post: __return__
    """
    from vp.oracles import unescape_plain
    return unescape_plain(X.Cats.escape(c)) == c


def lift_escape(c):
    ok = True
    for ex in (['a' + c + '2}', 'b' + c + '2}'], ['a{2' + c, 'b{2' + c], ['x' + c + '1,3}'], ['x{1,3' + c],
               ['a' + c + 'b]', 'c' + c + 'd]'], ['(a' + c, '(b' + c], ['a' + c + '?', 'b' + c + '?'], [c],
               ['a' + c, 'b' + c], ['a|' + c, 'b|' + c]):
        ok = ok and _pipeline_ok(ex, {})
    return ok


def _pipeline_ok(ex, kw):
    """everything C13 says about one call of the real extract()"""
    r = rx.extract(list(ex), dialect=DIALECT, **kw)
    distinct = []
    for e in ex:
        if e not in distinct:
            distinct.append(e)
    if len(set(r)) != len(r) or len(r) > len(distinct):
        return False
    for p_ in r:
        if not (p_.startswith('^') and p_.endswith('$')):
            return False
        cr = re.compile(p_, RE_FLAGS)
        if not any(cr.match(e) for e in ex):
            return False
    # tagging changes only the grouping
    t = rx.extract(list(ex), dialect=DIALECT, tag=True, **kw)
    if len(t) != len(r):
        return False
    for e in ex:
        if [bool(re.match(p_, e, RE_FLAGS)) for p_ in r] != [bool(re.match(p_, e, RE_FLAGS)) for p_ in t]:
            return False
    return True


def k6_pipeline(i1: List[int], i2: List[int]) -> bool:
    """
    pre: len(i1) <= P['l1'] and len(i2) <= P['l2']
    pre: all(0 <= i < len(P['alpha']) for i in i1 + i2)
    post: __return__
    """
    def text(idx):
        out = ''
        for i in idx:
            for k in range(len(P['alpha'])):
                if i == k:
                    out += P['alpha'][k]
                    break
        return out
    return _pipeline_ok([text(i1), text(i2)], dict(P.get('kw') or {}))


CODE_LETTERS = ['D', 'A', 'a', 'L', 'h', 'H', 'X', 'n', 'N', 'C', 'b', 'B', 'M', '.', '?', '*']
VAR_PARTS = ['1', '77', 'x']


def k6_code_letters(ci: int, v1: int, v2: int, v3: int, shape: int) -> bool:
    """
    pre: 0 <= ci < len(CODE_LETTERS) and 0 <= shape < 3
    pre: 0 <= v1 < len(VAR_PARTS) and 0 <= v2 < len(VAR_PARTS) and v3 == 0
    post: __return__
    """
    # examples holding, as a CONSTANT field, a character that rexpy uses internally as a category code,
    # next to a field that varies (rexpy represents literals and category codes in the same tuples)
    def pick(i, menu):
        for k in range(len(menu)):
            if i == k:
                return menu[k]
        return menu[-1]
    c = pick(ci, CODE_LETTERS)
    parts = [pick(v, VAR_PARTS) for v in (v1, v2)] + ['2']
    shape = pick(shape, [0, 1, 2])
    if shape == 0:
        ex = [c + '-' + p_ for p_ in parts]
    elif shape == 1:
        ex = [p_ + '/' + c for p_ in parts]
    else:
        ex = [c + c + ' ' + p_ for p_ in parts]
    kw = dict(P.get('kw') or {})
    return _pipeline_ok(ex, kw)


def _obs():
    obs = []
    for d, e, tier in (('portable', None, 'quick'), ('perl', None, 'thorough'), ('grep', '_.-', 'quick'),
                       ('portable', '_.-', 'thorough'), ('perl', '_.-', 'thorough'), ('portable', '-', 'thorough'),
                       ('portable', '.', 'thorough'), ('portable', '_', 'thorough'), ('grep', None, 'thorough')):
        for nf, st in ((1, False), (1, True), (2, False), (2, True)):
            obs.append(Ob('K1', 'k1_render', 'vrle2re output starts ^, ends with an unescaped $, compiles under re, '
                          'and tagging adds exactly one group per non-fixed fragment (none if it is already a group)',
                          ('1 fragment; piece = symbolic index over %d fixed literals + every category code; m 0..1, '
                           'M-m 0..1 or unbounded' % len(FIXED)) if nf == 1 else
                          '2 fragments; pieces from {a, \\., Digit, UAlphaNumeric}; m=1, M-m in {0,2,unbounded}'
                          + '; tagged/output symbolic; strip=%s; dialect %s extra %r' % (st, d, e),
                          param={'dialect': d, 'extra': e, 'nfrag': nf, 'strip': st}, timeout=300, tier=tier))
        obs.append(Ob('K3', 'k3_tag_fragment', 'fragment2re(tagged=True) is the untagged text or that text inside '
                      'one pair of parentheses (never for fixed fragments), and every piece that receives a '
                      'quantifier is atomic in re\'s own parse',
                      'piece as K1; m 0..3, M-m 0..2 or unbounded; dialect %s extra %r' % (d, e),
                      param={'dialect': d, 'extra': e}, timeout=300, tier=tier))
    obs.append(Ob('K3', 'k3_capture_group', 'capture_group(s) is (s), or s itself only when s starts "(" and ends ")"',
                  's: any string over the alphabet ( ) a | , len<=3 (the %-formatting realises s, so the alphabet is bounded)', param={'n': 3}, timeout=120))
    obs.append(Ob('K3', 'k3_capture_group', 'capture_group(s) is (s), or s itself only when s starts "(" and ends ")"',
                  's: any string over the alphabet ( ) a | , len<=5', param={'n': 5}, timeout=1200, tier='thorough'))
    obs.append(Ob('K4', 'k4_vrles_unique', 'to_vrles returns no duplicate, exactly one entry per input signature, '
                  'never more entries than distinct inputs', '<=2 rles x 2 fragments, 3 signatures, counts >= 1',
                  param={'n': 2}, timeout=120))
    obs.append(Ob('K4', 'k4_vrles_unique', 'to_vrles returns no duplicate, exactly one entry per input signature, '
                  'never more entries than distinct inputs', '<=3 rles x 2 fragments, 3 signatures, counts >= 1',
                  param={'n': 3}, timeout=1800, tier='thorough'))
    obs.append(Ob('K4', 'k4_prune', 'find_bad_patterns + ResultsSummary.remove: survivors <= max_patterns, are the '
                  'most frequent, none below min_strings_per_pattern; nothing removed by default; empty stays empty',
                  '<=3 symbolic frequencies 1..4; max_patterns None or 1..4; min_strings 1..3', param={'n': 3}, timeout=300))
    obs.append(Ob('K4', 'k4_prune', 'find_bad_patterns + ResultsSummary.remove: survivors <= max_patterns, are the '
                  'most frequent, none below min_strings_per_pattern; nothing removed by default; empty stays empty',
                  '<=4 symbolic frequencies 1..4; max_patterns None or 1..4; min_strings 1..3', param={'n': 4},
                  timeout=1200, tier='thorough'))
    obs.append(Ob('K5', 'k5_fallback', 'with the group limit exceeded a string is encoded as the single fallback '
                  '.{n} with n = len(s), otherwise as its coarse run-length encoding',
                  'MAX_GROUPS patched to 2; s any string len<=3', param={'n': 3}, timeout=300,
                  stubs=['rexpy.MAX_GROUPS = 2 so that the limit is inside the bound']))
    obs.append(Ob('K5', 'k5_fallback', 'with the group limit exceeded a string is encoded as the single fallback '
                  '.{n} with n = len(s), otherwise as its coarse run-length encoding',
                  'MAX_GROUPS patched to 2; s any string len<=4', param={'n': 4}, timeout=1800, tier='thorough',
                  stubs=['rexpy.MAX_GROUPS = 2 so that the limit is inside the bound']))
    obs.append(Ob('K2', 'k2_escape_literal', 'a literal character is escaped so that it un-escapes to itself and no '
                  'regex metacharacter is left bare (same lemma as C03-L5d; validity of every fixed fragment rests on '
                  'it)', 'c: any one code point', param={'dialect': 'portable', 'extra': None}, timeout=120,
                  lift='lift_escape'))
    for alpha, l1, l2, kw, tier, to in (('a.', 4, 3, {}, 'quick', 600), ('a1.{}', 3, 2, {}, 'thorough', 7000),
                                        ('a1.{}', 3, 2, {'variableLengthFrags': True}, 'thorough', 7000)):
        obs.append(Ob('K6', 'k6_pipeline', 'end to end on tiny inputs: every expression the real extract() returns '
                      'compiles, is anchored, matches at least one example, none is returned twice, there are never '
                      'more expressions than distinct examples, and tag=True matches exactly the same examples',
                      'every pair of strings of length <=%d and <=%d over the alphabet %r (symbolic index per '
                      'position); options %r' % (l1, l2, alpha, kw),
                      param={'dialect': 'portable', 'extra': None, 'l1': l1, 'l2': l2, 'kw': kw, 'alpha': alpha}, timeout=to,
                      tier=tier))
    obs.append(Ob('K6', 'k6_code_letters', 'end to end: with a constant field that is one of rexpy\'s internal category '
                  'code characters next to a varying field, every returned expression still compiles, is anchored, '
                  'matches an example, is not repeated, and tagging changes nothing else',
                  '%d code characters x 2 varying parts from a menu of %d (+ a third, fixed) x 3 shapes (symbolic indexes)'
                  % (len(CODE_LETTERS), len(VAR_PARTS)), param={'dialect': 'portable', 'extra': None, 'kw': {}},
                  timeout=900))
    obs.append(Ob('K6', 'k6_pipeline', 'end to end on tiny inputs with strip=True: every expression the real extract() '
                  'returns compiles, is anchored, matches at least one example (as given, whitespace included), none '
                  'is returned twice, and tag=True matches exactly the same examples',
                  'every pair of strings of length <=2 over the alphabet "a " (symbolic index per position); '
                  'strip=True', param={'dialect': 'portable', 'extra': None, 'l1': 2, 'l2': 2, 'kw': {'strip': True},
                                       'alpha': 'a '}, timeout=600))
    return obs


OBLIGATIONS = _obs()
ASSUMPTIONS = ['"matches at least one example" is inherited from C03: each expression is built from a non-empty '
               'signature group, every member of which it matches (C03 L1-L5)',
               'literal pieces inside expressions are escaped per C03-L5d and brackets per C03-L5c']
OUTSIDE = ['nested capture-group mapping (group_map_function)', 'merge/alignment cannot duplicate rows (C03-L6)']
