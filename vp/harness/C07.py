"""C07 - discovery reports exact statistics of the data (constraints are tight)."""
import datetime
from typing import List, Optional

from vp.ob import Ob
from vp import rt
from vp.doubles import symdf
from vp.doubles.symdf import SymFrame

import tdda.constraints.pd.constraints as pc
import tdda.constraints.baseconstraints as bc

P = rt.param({})
MAXCAT = 2          # MAX_CATEGORIES is patched to 2 so that the threshold is inside the bound
EPOCH = datetime.datetime(2000, 1, 1)


def _discover(series, inc_rex=False):
    saved = bc.MAX_CATEGORIES
    bc.MAX_CATEGORIES = MAXCAT
    try:
        with symdf.patched(pc):
            d = pc.PandasConstraintDiscoverer(SymFrame({'c': series}), inc_rex=inc_rex)
            fc = d.discover_field_constraints('c')
    finally:
        bc.MAX_CATEGORIES = saved
    return None if fc is None else dict(fc.to_dict_value(raw=True))


def _nn(vals):
    return [v for v in vals if v is not None]


def _distinct(nn):
    out = []
    for v in nn:
        if not any(v == w for w in out):
            out.append(v)
    return out


def _numeric_expect(vals, type_, allow_nodup):
    """the statement, item by item"""
    want = {'type': type_}
    if len(vals) == 0:
        return want
    nn = _nn(vals)
    nulls = len(vals) - len(nn)
    if nulls < 2:
        want['max_nulls'] = nulls
    if nn:
        lo = nn[0]
        hi = nn[0]
        for v in nn[1:]:
            if v < lo:
                lo = v
            if v > hi:
                hi = v
        want['min'] = lo
        want['max'] = hi
        if type_ != 'date':
            if lo == 0 and hi == 0:
                want['sign'] = 'zero'
            elif lo > 0:
                want['sign'] = 'positive'
            elif lo >= 0:
                want['sign'] = 'non-negative'
            elif hi < 0:
                want['sign'] = 'negative'
            elif hi <= 0:
                want['sign'] = 'non-positive'
    if allow_nodup and len(nn) > 1 and len(_distinct(nn)) == len(nn):
        want['no_duplicates'] = True
    return want


def _same(got, want):
    if set(got) != set(want):
        return False
    for k in want:
        if got[k] != want[k]:
            return False
        if isinstance(want[k], bool) != isinstance(got[k], bool) and k in ('min', 'max'):
            return False
    return True


@rt.known_class('C07.no-duplicates-bool-date')
def _k_nodup(vals, *rest):
    """a bool or date field with more than one non-null value, all distinct"""
    nn = _nn(vals)
    return P.get('kind') in ('bool', 'date') and len(nn) > 1 and len(_distinct(nn)) == len(nn)


# ---- K1: DataFrame side ------------------------------------------------------------------------------
def k1_int(vals: List[Optional[int]]) -> bool:
    """
    pre: len(vals) <= P['rows']
    post: __return__
    """
    ser = symdf.int_series(vals)
    type_ = 'real' if any(v is None for v in vals) else 'int'
    got = _discover(ser)
    want = _numeric_expect(vals, type_, allow_nodup=(type_ != 'real'))
    return _same(got, want)


def k1_bool(vals: List[Optional[bool]]) -> bool:
    """
    pre: len(vals) <= P['rows']
    pre: rt.admit(['C07.no-duplicates-bool-date'], vals)
    post: __return__
    """
    ser = symdf.bool_series(vals)
    got = _discover(ser)
    if len(vals) > 0 and all(v is None for v in vals):
        # an object column holding only nulls is typed string: nothing but type and max_nulls
        want = {'type': 'string'}
        if len(vals) < 2:
            want['max_nulls'] = len(vals)
        if len(vals) <= MAXCAT:
            pass
        return _same(got, want)
    want = _numeric_expect(vals, 'bool', allow_nodup=True)
    return _same(got, want)


def lift_bool(vals):
    """public API on real pandas"""
    import pandas as pd
    from tdda.constraints import discover_df
    df = pd.DataFrame({'c': pd.Series(list(vals), dtype=(object if any(v is None for v in vals) else bool))})
    c = discover_df(df)
    got = dict(c.to_dict()['fields']['c']) if c and 'c' in c.to_dict()['fields'] else {}
    nn = _nn(vals)
    want_nodup = len(nn) > 1 and len(set(nn)) == len(nn)
    return ('no_duplicates' in got) == want_nodup


def k1_date(days: List[Optional[int]]) -> bool:
    """
    pre: len(days) <= P['rows'] and all(d is None or 0 <= d <= 400 for d in days)
    pre: rt.admit(['C07.no-duplicates-bool-date'], days)
    post: __return__
    """
    vals = [None if d is None else EPOCH + datetime.timedelta(days=d) for d in days]
    got = _discover(symdf.date_series(vals))
    want = _numeric_expect(vals, 'date', allow_nodup=True)
    return _same(got, want)


def lift_date(days):
    import pandas as pd
    from tdda.constraints import discover_df
    vals = [None if d is None else EPOCH + datetime.timedelta(days=d) for d in days]
    df = pd.DataFrame({'c': pd.to_datetime(pd.Series(vals))})
    c = discover_df(df)
    got = dict(c.to_dict()['fields']['c'])
    nn = _nn(days)
    return ('no_duplicates' in got) == (len(nn) > 1 and len(set(nn)) == len(nn))


def k1_string(vals: List[Optional[str]]) -> bool:
    """
    pre: len(vals) <= P['rows'] and all(v is None or len(v) <= P['nc'] for v in vals)
    post: __return__
    """
    got = _discover(symdf.str_series(vals))
    want = {'type': 'string'}
    if len(vals) > 0:
        nn = _nn(vals)
        nulls = len(vals) - len(nn)
        if nulls < 2:
            want['max_nulls'] = nulls
        d = _distinct(nn)
        if nn:
            want['min_length'] = min(len(x) for x in nn)
            want['max_length'] = max(len(x) for x in nn)
            if len(d) <= MAXCAT:
                want['allowed_values'] = sorted(d)
        if len(nn) > 1 and len(d) == len(nn):
            want['no_duplicates'] = True
    return _same(got, want)


# ---- K2: SQL side ---------------------------------------------------------------------------------------
def _discover_sql(sqltype, vals):
    from collections import OrderedDict
    from vp.doubles.sqldouble import FakeConnection, FakeDB
    from tdda.constraints.db.constraints import DatabaseConstraintDiscoverer
    from tdda.constraints.db.drivers import regex_matcher
    saved = bc.MAX_CATEGORIES
    bc.MAX_CATEGORIES = MAXCAT
    try:
        conn = FakeConnection('t', OrderedDict([('c', (sqltype, list(vals)))]), regexp=regex_matcher)
        d = DatabaseConstraintDiscoverer('sqlite', FakeDB(conn), 't')
        fc = d.discover_field_constraints('c')
    finally:
        bc.MAX_CATEGORIES = saved
    return None if fc is None else dict(fc.to_dict_value(raw=True))


def k2_sql_int(vals: List[Optional[int]]) -> bool:
    """
    pre: len(vals) <= P['rows']
    post: __return__
    """
    got = _discover_sql('INTEGER', vals)
    return _same(got, _numeric_expect(vals, 'int', allow_nodup=True))


def k2_sql_bool(vals: List[Optional[bool]]) -> bool:
    """
    pre: len(vals) <= P['rows']
    pre: rt.admit(['C07.no-duplicates-bool-date'], vals)
    post: __return__
    """
    got = _discover_sql('BOOLEAN', [None if v is None else int(v) for v in vals])
    want = _numeric_expect([None if v is None else int(v) for v in vals], 'bool', allow_nodup=True)
    return _same(got, want)


def k2_sql_text(vals: List[Optional[str]]) -> bool:
    """
    pre: len(vals) <= P['rows'] and all(v is None or len(v) <= P['nc'] for v in vals)
    post: __return__
    """
    got = _discover_sql('TEXT', vals)
    want = {'type': 'string'}
    if len(vals) > 0:
        nn = _nn(vals)
        nulls = len(vals) - len(nn)
        if nulls < 2:
            want['max_nulls'] = nulls
        d = _distinct(nn)
        if nn:
            want['min_length'] = min(len(x) for x in nn)
            want['max_length'] = max(len(x) for x in nn)
            if len(d) <= MAXCAT:
                want['allowed_values'] = sorted(d)
        if len(nn) > 1 and len(d) == len(nn):
            want['no_duplicates'] = True
    return _same(got, want)


def _obs():
    obs = []
    Q, T = 'quick', 'thorough'
    what = ('discover_field_constraints reports exactly: the column type; min/max = smallest/largest non-null value; '
            'the strongest sign class; max_nulls iff the null count is 0 or 1; no_duplicates iff a non-real field has '
            '>1 non-null values, all distinct; nothing but the type for zero rows')
    for rows, tier, to in ((3, Q, 300), (4, T, 2400)):
        obs.append(Ob('K1', 'k1_int', what, 'integer column (float64 when it holds nulls) of <=%d rows, values ANY '
                      'int or null' % rows, param={'rows': rows, 'kind': 'int'}, timeout=to, tier=tier,
                      stubs=['symdf']))
        obs.append(Ob('K1', 'k1_bool', what, 'boolean column (object when it holds nulls) of <=%d rows' % rows,
                      param={'rows': rows, 'kind': 'bool'}, timeout=to, tier=tier, stubs=['symdf'],
                      known=['C07.no-duplicates-bool-date'], lift='lift_bool'))
    for rows, tier, to in ((3, Q, 300), (4, T, 2400)):
        obs.append(Ob('K1', 'k1_date', what, 'datetime column of <=%d rows: 2000-01-01 + d days, d symbolic in 0..400 '
                      'or null' % rows, param={'rows': rows, 'kind': 'date'}, timeout=to, tier=tier, stubs=['symdf'],
                      known=['C07.no-duplicates-bool-date'], lift='lift_date'))
    for rows, nc, tier, to in ((3, 2, Q, 400), (4, 2, T, 2400)):
        obs.append(Ob('K1', 'k1_string', 'string field: min/max length in characters; allowed_values = the sorted '
                      'distinct strings iff there are at most MAX_CATEGORIES; no_duplicates iff >1 non-null values, '
                      'all distinct; max_nulls iff 0 or 1 nulls; nothing but the type for zero rows',
                      'object column of <=%d rows of symbolic strings len<=%d or null; MAX_CATEGORIES patched to %d'
                      % (rows, nc, MAXCAT), param={'rows': rows, 'nc': nc, 'kind': 'string'}, timeout=to, tier=tier,
                      stubs=['symdf', 'baseconstraints.MAX_CATEGORIES = %d' % MAXCAT]))
    for rows, tier, to in ((3, Q, 400), (4, T, 2400)):
        obs.append(Ob('K2', 'k2_sql_int', 'SQLite side: ' + what, 'INTEGER column of <=%d rows, ANY ints/NULLs, through '
                      'the real SQL text generation' % rows, param={'rows': rows, 'kind': 'int'}, timeout=to, tier=tier,
                      stubs=['sqldouble']))
        obs.append(Ob('K2', 'k2_sql_bool', 'SQLite side: ' + what, 'BOOLEAN column of <=%d rows of 0/1/NULL' % rows,
                      param={'rows': rows, 'kind': 'bool'}, timeout=to, tier=tier, stubs=['sqldouble'],
                      known=['C07.no-duplicates-bool-date']))
    # (3 rows so that the number of distinct values can exceed the patched MAX_CATEGORIES also in the quick tier)
    for rows, nc, tier, to in ((2, 2, Q, 400), (3, 1, Q, 400), (3, 2, T, 2400)):
        obs.append(Ob('K2', 'k2_sql_text', 'SQLite side, string field: lengths in characters, allowed_values iff at '
                      'most MAX_CATEGORIES, no_duplicates, max_nulls; nothing but the type for an empty table',
                      'TEXT column of <=%d rows of symbolic strings len<=%d or NULL; MAX_CATEGORIES patched to %d'
                      % (rows, nc, MAXCAT), param={'rows': rows, 'nc': nc, 'kind': 'string'}, timeout=to, tier=tier,
                      stubs=['sqldouble', 'baseconstraints.MAX_CATEGORIES = %d' % MAXCAT]))
    return obs


PREFLIGHT = ['vp.doubles.conformance:symdf_conformance', 'vp.doubles.sqldouble:sql_conformance']
OBLIGATIONS = _obs()
ASSUMPTIONS = ['symdf contract (vp/doubles/symdf.py), checked against real pandas by the conformance pass']
OUTSIDE = ['pandas aggregates themselves; unsigned/nullable-extension/categorical dtypes; +-inf and NaN-vs-None',
           'what SQLite computes for a given statement beyond the conformance pass; REAL and date columns on the SQL side']
