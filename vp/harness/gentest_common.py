"""Shared by C11/C12: run the real TestGenerator.write_script on directly constructed state."""
from vp.doubles import fakefs
from tdda.referencetest import gentest
from tdda.referencetest.gentest import TestGenerator


class FT:
    """stand-in for utils.FileType (which sniffs the file with chardet): text/binary decided by the harness"""
    def __init__(self, text, encoding=None):
        self.text = text
        self.binary = not text
        self.encoding = encoding


class R:
    def __init__(self, exit_code=0, out='', err=''):
        self.exit_code = exit_code
        self.out = out
        self.err = err
        self.exc = None
        self.duration = 0.01


def make_generator(raw_script, cwd='/cwd', fs=None):
    """The real constructor with iterations=0 (no command is run, nothing is written), then the state a run
    would have produced is filled in directly.  gentest.os must already be patched if the name is symbolic
    (posixpath.abspath/normpath explode on symbolic strings)."""
    g = TestGenerator(cwd, 'echo hi', raw_script, [], True, check_stderr=True, require_zero_exit_code=True,
                      no_clobber=False, iterations=0, tmp_dir_shell_var=None, verbose=False)
    g.iterations = 2
    g.ref_map = {}
    g.exclusions = {}
    g.filetypes = {}
    g.results = {1: R()}
    g.reference_files = {1: []}
    return g


def write_script_text(g, fs):
    """run the real write_script over the in-memory filesystem and return the script text"""
    import io
    import contextlib
    with contextlib.redirect_stdout(io.StringIO()):
        g.write_script()
    return fs.files[g.script]
