"""C01 - discovered DataFrame constraints are satisfied by the data they came from."""
import datetime
from typing import List, Optional

from vp.ob import Ob
from vp import rt
from vp.doubles import symdf
from vp.doubles.symdf import SymFrame

import tdda.constraints.pd.constraints as pc
import tdda.constraints.baseconstraints as bc
import tdda.rexpy.rexpy as rx
from tdda.constraints import base
from tdda.constraints.base import DatasetConstraints, native_definite

P = rt.param({})
EPOCH = datetime.datetime(2000, 1, 1)


def _match_all(values, seed=None, **kw):
    """stand-in for rexpy.extract: expressions that match by assumption (their content is C03's business);
    the real call site, RexConstraint, calc_rex_constraint loop and re.match still run"""
    return ['^.*$'] if list(values) else []


def _closure(series_factory, vals, via_dict, repair, detect, inc_rex):
    saved_extract = (pc.rexpy.extract, rx.extract)
    pc.rexpy.extract = _match_all
    rx.extract = _match_all
    try:
        with symdf.patched(pc):
            df = SymFrame({'c': series_factory(vals)})
            cons = pc.PandasConstraintDiscoverer(df, inc_rex=inc_rex).discover()
            if cons is None:
                return True
            if via_dict:
                d = cons.to_dict()
                cons = DatasetConstraints()
                cons.initialize_from_dict(native_definite(d))
            df2 = SymFrame({'c': series_factory(vals)})
            ver = pc.PandasConstraintVerifier(df2)
            if repair:
                ver.repair_field_types(cons)
            if detect:
                r = ver.detect(cons, VerificationClass=pc.PandasDetection, per_constraint=True)
            else:
                r = ver.verify(cons, VerificationClass=pc.PandasVerification)
    finally:
        pc.rexpy.extract, rx.extract = saved_extract
    if r.failures != 0:
        return False
    for name, fr in r.fields.items():
        for kind, ok in fr.items():
            if not ok:
                return False
    if detect:
        if r.detection is not None:
            return False
        if list(ver.out_df) != []:
            return False
    return True


def _modes():
    return bool(P.get('via_dict')), bool(P.get('repair')), bool(P.get('detect')), bool(P.get('rex'))


# ---- K1/K2: closure ---------------------------------------------------------------------------------
def k1_int(vals: List[Optional[int]]) -> bool:
    """
    pre: len(vals) <= P['rows']
    post: __return__
    """
    return _closure(symdf.int_series, vals, *_modes())


def k1_bool(vals: List[Optional[bool]]) -> bool:
    """
    pre: len(vals) <= P['rows']
    post: __return__
    """
    return _closure(symdf.bool_series, vals, *_modes())


def k1_string(vals: List[Optional[str]]) -> bool:
    """
    pre: len(vals) <= P['rows'] and all(v is None or len(v) <= P['nc'] for v in vals)
    post: __return__
    """
    return _closure(symdf.str_series, vals, *_modes())


def k1_date(days: List[Optional[int]]) -> bool:
    """
    pre: len(days) <= P['rows'] and all(d is None or 0 <= d <= 400 for d in days)
    post: __return__
    """
    f = lambda ds: symdf.date_series([None if d is None else EPOCH + datetime.timedelta(days=d) for d in ds])
    return _closure(f, days, *_modes())


DATE_MENU = [datetime.datetime(2001, 2, 3), datetime.datetime(2001, 2, 3, 4, 5, 6),
             datetime.datetime(1999, 12, 31, 23, 59, 59, 999999), datetime.datetime(1, 1, 1),
             datetime.datetime(9999, 12, 31, 0, 0, 0, 1)]


def k2_date_via_dict(idx: List[int], nulls: List[bool]) -> bool:
    """
    pre: len(idx) <= 3 and len(nulls) == len(idx) and all(0 <= i < len(DATE_MENU) for i in idx)
    post: __return__
    """
    vals = [None if n else DATE_MENU[i] for i, n in zip(idx, nulls)]
    return _closure(symdf.date_series, vals, bool(P.get('via_dict', 1)), bool(P.get('repair')),
                    bool(P.get('detect')), False)


# ---- K3: date bounds survive str() -> get_date (regular-language inclusion, direct z3) ---------------------
def k3_date_languages():
    import z3
    from vp.engine_z3 import re2z3, Queries, Untranslatable
    out = {}
    try:
        RD, RDT, RDTM = [re2z3(r.pattern) for r in (base.RD, base.RDT, base.RDTM)]
    except Untranslatable as e:
        return {'status': 'inconclusive', 'message': 'pattern no longer translatable: %s' % e}

    def d(n):
        return z3.Loop(z3.Range('0', '9'), n, n)
    L = z3.Re
    iso_date = z3.Concat(d(4), L('-'), d(2), L('-'), d(2))
    iso_dt = z3.Concat(iso_date, L(' '), d(2), L(':'), d(2), L(':'), d(2))
    iso_dtm = z3.Concat(iso_dt, L('.'), d(6))
    s = z3.String('s')
    q = Queries()
    r0, _ = q.check('languages non-empty', z3.InRe(s, iso_dtm), expect='sat')
    out['reachable'] = (r0 == 'sat')
    checks = [
        # str(datetime.date) and str(datetime) forms are each accepted by the regex of matching arity ...
        ('str(date) form YYYY-MM-DD is in RD', [z3.InRe(s, iso_date), z3.Not(z3.InRe(s, RD))]),
        ('str(datetime) form without microseconds is in RDT', [z3.InRe(s, iso_dt), z3.Not(z3.InRe(s, RDT))]),
        ('str(datetime) form with microseconds is in RDTM', [z3.InRe(s, iso_dtm), z3.Not(z3.InRe(s, RDTM))]),
        # ... and by no EARLIER one in get_date's loop (so the constructor gets the right number of fields)
        ('datetime form is not caught by RD', [z3.InRe(s, iso_dt), z3.InRe(s, RD)]),
        ('microsecond form is not caught by RD', [z3.InRe(s, iso_dtm), z3.InRe(s, RD)]),
        ('microsecond form is not caught by RDT', [z3.InRe(s, iso_dtm), z3.InRe(s, RDT)]),
    ]
    status = 'discharged'
    for name, cons in checks:
        r, m = q.check(name, *cons)
        if r == 'sat':
            text = m.eval(s, model_completion=True).as_string()
            out.update(status='counterexample', replay_fn='replay_date_text', call='replay_date_text(%r)' % text)
            status = 'counterexample'
            break
        if r != 'unsat':
            status = 'inconclusive'
            out['message'] = 'solver returned %s for: %s' % (r, name)
    out['status'] = status
    out['queries'] = out['paths'] = len(q.log)
    out['cpu_s'] = round(q.total, 3)
    out['detail'] = q.log
    if q.disagreements:
        out['status'] = 'harness_error'
        out['message'] = 'z3 and cvc5 disagree on: %s' % q.disagreements
    out['functions'] = ['tdda/constraints/base.py:get_date (patterns RD, RDT, RDTM read from the live module)']
    return out


def replay_date_text(text):
    """concrete: a str(datetime)-shaped text must come back from get_date as a datetime with the same fields"""
    import re
    m = re.match(r'^(\d{4})-(\d\d)-(\d\d)(?: (\d\d):(\d\d):(\d\d)(?:\.(\d{6}))?)?$', text)
    if not m:
        return True
    got = base.get_date(text)
    fields = [int(g) for g in m.groups() if g is not None]
    try:
        want = datetime.datetime(*fields)
    except ValueError:
        return True         # not a real instant: str(datetime) cannot produce it
    return got == want


def k3_get_date_fields(y: int, mo: int, d: int, h: int, mi: int, s: int) -> bool:
    """
    pre: 1 <= y <= 9999 and 1 <= mo <= 12 and 1 <= d <= 28 and 0 <= h < 24 and 0 <= mi < 60 and 0 <= s < 60
    pre: P['fixed'][0] == y and P['fixed'][1] == mo
    post: __return__
    """
    # with the language questions settled by z3, the arithmetic half: int() of each captured group, in order
    text = '%04d-%02d-%02d %02d:%02d:%02d' % (y, mo, d, h, mi, s)
    return base.get_date(text) == datetime.datetime(y, mo, d, h, mi, s)


def k3_get_date_micro(ds: List[int], sec: int) -> bool:
    """
    pre: len(ds) == 6 and all(0 <= x <= 9 for x in ds) and 0 <= sec < 60
    post: __return__
    """
    # the fractional field: ANY six digits (all 10**6 microsecond counts at once), written digit by digit so that the
    # expected value is arithmetic over the digits, not the code's own int()
    frac = ''.join(chr(48 + x) for x in ds)
    text = '2001-02-03 04:05:%s%s.%s' % (chr(48 + sec // 10), chr(48 + sec % 10), frac)
    us = ((((ds[0] * 10 + ds[1]) * 10 + ds[2]) * 10 + ds[3]) * 10 + ds[4]) * 10 + ds[5]
    got = base.get_date(text)
    return (type(got) is datetime.datetime and got.microsecond == us and got.second == sec
            and (got.year, got.month, got.day, got.hour, got.minute) == (2001, 2, 3, 4, 5))


def _obs():
    obs = []
    Q, T = 'quick', 'thorough'
    what = ('discover() -> [to_dict -> initialize_from_dict] -> [repair_field_types] -> verify/detect on the same '
            'column: no exception, 0 failures, every verdict true, and with detect no flag column and no detection')
    modes = [
        # via_dict, repair, detect, rex
        (0, 0, 0, 0), (1, 1, 0, 0), (0, 1, 1, 0), (1, 0, 1, 0),
    ]
    for via, rep, det, _ in modes:
        mtxt = 'constraints %s; repair %s; %s' % ('through dict' if via else 'in memory', 'on' if rep else 'off',
                                                   'detect' if det else 'verify')
        for rows, tier, to in ((3, Q, 300), (4, T, 2400)):
            obs.append(Ob('K1', 'k1_int', what, 'integer column (float64 when nulls) of <=%d rows, ANY ints/nulls; %s'
                          % (rows, mtxt), param={'rows': rows, 'via_dict': via, 'repair': rep, 'detect': det},
                          timeout=to, tier=tier, stubs=['symdf']))
        for rows, tier, to in ((3, Q, 300), (5, T, 2400)):
            obs.append(Ob('K1', 'k1_bool', what, 'boolean column (object when nulls) of <=%d rows; %s' % (rows, mtxt),
                          param={'rows': rows, 'via_dict': via, 'repair': rep, 'detect': det}, timeout=to, tier=tier,
                          stubs=['symdf']))
    for via, rep, det, rex in ((0, 0, 0, 0), (1, 1, 0, 1), (0, 1, 1, 1), (1, 0, 1, 0)):
        mtxt = 'constraints %s; repair %s; %s; rex %s' % ('through dict' if via else 'in memory',
                                                           'on' if rep else 'off', 'detect' if det else 'verify',
                                                           'on' if rex else 'off')
        for rows, nc, tier, to in ((2, 2, Q, 400), (3, 2, T, 3000)):
            obs.append(Ob('K1', 'k1_string', what, 'object column of <=%d rows of symbolic strings len<=%d or null; %s'
                          % (rows, nc, mtxt), param={'rows': rows, 'nc': nc, 'via_dict': via, 'repair': rep,
                                                     'detect': det, 'rex': rex}, timeout=to, tier=tier,
                          stubs=['symdf'] + (['rexpy.extract -> expressions that match by assumption'] if rex else [])))
    for det in (0, 1):
        obs.append(Ob('K1', 'k1_date', what, 'datetime column of <=2 rows: 2000-01-01 + d days, d symbolic 0..400 '
                      'or null; in memory; %s' % ('detect' if det else 'verify'),
                      param={'rows': 2, 'detect': det, 'repair': 1}, timeout=3000, tier=T, stubs=['symdf']))
        obs.append(Ob('K1', 'k2_date_via_dict', what, 'datetime column of <=3 rows drawn from %d instants (date-only, '
                      'seconds, microseconds, year 1, year 9999) or null; in memory; %s'
                      % (len(DATE_MENU), 'detect' if det else 'verify'),
                      param={'detect': det, 'repair': 1, 'via_dict': 0}, timeout=300, stubs=['symdf']))
        obs.append(Ob('K2', 'k2_date_via_dict', what + ' (date bounds written with str() and re-parsed)',
                      'datetime column of <=3 rows drawn from %d instants (date-only, seconds, microseconds, year 1, '
                      'year 9999) or null; through dict; %s' % (len(DATE_MENU), 'detect' if det else 'verify'),
                      param={'detect': det, 'repair': 1}, timeout=300, stubs=['symdf']))
    obs.append(Ob('K3', 'k3_date_languages', 'every text str(date/datetime) can produce is accepted by the get_date '
                  'regex of matching arity and by no earlier one', 'all strings (regular-language inclusion; \\d read as '
                  '[0-9])', engine='z3', timeout=600, twin=False))
    for y, mo in ((2024, 2), (1, 1), (9999, 12)):
        obs.append(Ob('K3', 'k3_get_date_fields', 'get_date(str(dt)) == dt: the captured groups are converted in order',
                      'year %d month %d fixed; day 1..28, hour, minute, second symbolic' % (y, mo),
                      param={'fixed': [y, mo]}, timeout=300, tier=T))
    obs.append(Ob('K3', 'k3_get_date_micro', 'get_date(str(dt)) keeps the microsecond and second fields exactly, for every '
                  'six-digit fraction', 'date and hour:minute fixed; six symbolic fraction digits (all 10**6 microsecond '
                  'counts), seconds symbolic 0..59', timeout=300))
    return obs


PREFLIGHT = ['vp.doubles.conformance:symdf_conformance']
OBLIGATIONS = _obs()
ASSUMPTIONS = ['symdf contract (vp/doubles/symdf.py), checked against real pandas by the conformance pass',
               'with rex on, rexpy.extract is replaced by a stub whose expressions match by assumption (C03 decides '
               'whether the real expressions match)']
OUTSIDE = ['pandas aggregates and the dtype zoo (categorical, unsigned, nullable extension types, +-inf, NaN vs None)',
           'to_json / file I/O (json is C code; the dict half of the path is K2)', 'timezone-aware datetimes',
           'pandas 3 default "str" dtype columns are not recognised by tdda at all (typed "other": no constraints)']
