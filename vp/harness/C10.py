"""C10 - references are rewritten only on request, and a regenerated reference passes."""
from typing import List, Optional

from vp.ob import Ob
from vp import rt
from vp.harness import argv_common as ac
from tdda.referencetest.referencetest import ReferenceTest

P = rt.param({})
PROBE_KINDS = ['csv', 'graph', 'table', 'zzz', None]


# ---- K1: which kinds regenerate, from argv ---------------------------------
def k1_regen(clusters: List[str], widx: List[int]) -> bool:
    """
    pre: ac.shape_ok(P['shape'], clusters, widx, 0)
    post: __return__
    """
    args = ac.build(P['shape'], clusters, widx)
    out, tagged, check, table, kinds = ac.run_real(args, ac.TAILS[P['tail']])
    eo, et, ec, regen_all, ek = ac.oracle(args, kinds)
    rt_ = ReferenceTest(lambda *a, **k: None)
    for k in PROBE_KINDS:
        want = regen_all or (k is not None and k in ek)
        if bool(rt_._should_regenerate(k)) != want:
            return False
    return True


class _Cfg:
    def __init__(self, d):
        self.d = d

    def getoption(self, name, default=None):
        return self.d.get(name, default)


class _Req:
    def __init__(self, d):
        self.config = _Cfg(d)


def k1_pytest(write_all: bool, wquiet: bool, write: Optional[List[int]]) -> bool:
    """
    pre: write is None or (len(write) <= 2 and all(0 <= i < 4 for i in write))
    post: __return__
    """
    from tdda.referencetest import referencepytest as rp
    ReferenceTest.regenerate = {}
    verbose = ReferenceTest.verbose
    kinds = None if write is None else [ac.KINDS[i] for i in write]
    try:
        r = rp.ref(_Req({'--write-all': write_all, '--wquiet': wquiet, '--write': kinds}))
    finally:
        ReferenceTest.verbose = verbose
    ek = []
    for k in (kinds or []):
        ek.extend(k.split(','))
    for k in PROBE_KINDS:
        want = write_all or (k is not None and k in ek)
        if bool(r._should_regenerate(k)) != want:
            return False
    return True


# ---- K2/K3: assertions and their reference files --------------------------------------------------------
import tdda.referencetest.referencetest as rtm          # noqa: E402
import tdda.referencetest.checkfiles as cfm             # noqa: E402
import tdda.referencetest.basecomparison as bcm         # noqa: E402
from vp.doubles import fakefs                           # noqa: E402

KINDS3 = [None, 'csv', 'graph']
REF = '/ref/r.txt'
ACT = '/out/a.txt'


def _c(i, n):
    for k in range(n):
        if i == k:
            return k
    return n - 1


def _mk(fs_files):
    fs = fakefs.FakeFS(fs_files, dirs=['/ref', '/out', '/tmp/T'])
    fails = []
    ReferenceTest.regenerate = {}
    r = ReferenceTest(lambda ok, msg=None: fails.append(msg) if not ok else None)
    r.verbose = False
    r.files.tmp_dir = '/tmp/T'
    r.files.verbose = False
    return fs, r, fails


def _do_assert(r, which, actual, kind, ref=REF, **opts):
    """0 string, 1 text file, 2 list of text files, 3 binary file"""
    if which == 0:
        r.assertStringCorrect(actual, ref, kind=kind, **opts)
    elif which == 1:
        r.assertTextFileCorrect(ACT, ref, kind=kind, **opts)
    elif which == 2:
        r.assertTextFilesCorrect([ACT], [ref], kind=kind, **opts)
    else:
        r.assertBinaryFileCorrect(ACT, ref, kind=kind)


def k2_only_on_request(which: int, k_assert: int, k_set1: int, f1: bool, k_set2: int, f2: bool, same: bool,
                       again: bool) -> bool:
    """
    pre: which == P['which'] and 0 <= k_assert < 3 and -1 <= k_set1 < 3 and -1 <= k_set2 < 3
    post: __return__
    """
    which, k_assert = _c(which, 4), _c(k_assert, 3)
    k_set1, k_set2 = _c(k_set1 + 1, 4) - 1, _c(k_set2 + 1, 4) - 1
    binary = which == 3
    old = b'old' if binary else 'old'
    new = old if same else (b'new' if binary else 'new')
    files = {REF: old, ACT: new}
    fs, r, fails = _mk(files)
    table = {}
    verbose = ReferenceTest.verbose
    try:
        with fakefs.patched(fs, rtm, cfm, bcm):
            # a first assertion under the first setting, then the setting changes, then the same assertion again
            if k_set1 >= 0:
                ReferenceTest.set_regeneration(KINDS3[k_set1], f1)
                table[KINDS3[k_set1]] = f1
            kind = KINDS3[k_assert]
            for rnd in range(2 if again else 1):
                before = dict(fs.files)
                nlog = len(fs.log)
                nfails = len(fails)
                want_regen = table[kind] if kind in table else table.get(None, False)
                _do_assert(r, which, new, kind)
                touched = [p for op, p in fs.log[nlog:] if p == REF]
                if want_regen:
                    if fs.files.get(REF) != new or len(fails) != nfails:
                        return False
                else:
                    # normal mode: the reference is never created, modified or deleted, whatever the outcome
                    if touched or fs.files.get(REF) != before.get(REF):
                        return False
                    if (len(fails) > nfails) != (fs.files[REF] != new):
                        return False
                if rnd == 0 and k_set2 >= 0:
                    ReferenceTest.set_regeneration(KINDS3[k_set2], f2)
                    table[KINDS3[k_set2]] = f2
    finally:
        ReferenceTest.regenerate = {}
        ReferenceTest.verbose = verbose
    return True


KINDS4 = [None, 'csv', 'graph', 'parquet']


class _DF:
    """stands in for a DataFrame: content token; to_parquet writes through the fake filesystem"""
    def __init__(self, fs, content):
        self.fs = fs
        self.content = content

    def to_parquet(self, path, **kw):
        with self.fs.open(path, 'w') as f:
            f.write('PARQUET:' + self.content)


def k2_dataframe(k_assert: int, k_set1: int, f1: bool, k_set2: int, f2: bool, same: bool, again: bool,
                 ref_exists: bool) -> bool:
    """
    pre: 0 <= k_assert < 4 and -1 <= k_set1 < 4 and -1 <= k_set2 < 4
    post: __return__
    """
    import tdda.referencetest.checkpandas as cpm
    k_assert = _c(k_assert, 4)
    k_set1, k_set2 = _c(k_set1 + 1, 5) - 1, _c(k_set2 + 1, 5) - 1
    ref = '/ref/r.' + P['ext']
    prefix = 'PARQUET:' if P['ext'] == 'parquet' else 'CSV:'
    files = {ref: prefix + 'old'} if ref_exists else {}
    fs, r, fails = _mk(files)
    new = 'old' if same else 'new'
    df = _DF(fs, new)

    class FakePD:
        @staticmethod
        def read_parquet(path, **kw):
            with fs.open(path) as f:
                return _DF(fs, f.read()[len('PARQUET:'):])
    saved = (cpm.pd, cpm.default_csv_writer, cpm.PandasComparison.load_csv, ReferenceTest.assertDataFramesEqual)
    cpm.pd = FakePD

    def csv_writer(d, path, **kw):
        with fs.open(path, 'w') as f:
            f.write('CSV:' + d.content)

    def load_csv(self, path, loader=None, **kw):
        with fs.open(path) as f:
            return _DF(fs, f.read()[len('CSV:'):])

    def frames_equal(self, a, b, **kw):
        self.assert_fn(a.content == b.content, 'frames differ')
    cpm.default_csv_writer = csv_writer
    cpm.PandasComparison.load_csv = load_csv
    ReferenceTest.assertDataFramesEqual = frames_equal
    table = {}
    verbose = ReferenceTest.verbose
    import io
    import contextlib
    try:
        with fakefs.patched(fs, rtm, cfm, bcm, cpm), contextlib.redirect_stdout(io.StringIO()):
            r.pandas.verbose = False
            r.pandas.tmp_dir = '/tmp/T'
            if k_set1 >= 0:
                ReferenceTest.set_regeneration(KINDS4[k_set1], f1)
                table[KINDS4[k_set1]] = f1
            kind = KINDS4[k_assert]
            for rnd in range(2 if again else 1):
                before = dict(fs.files)
                nlog = len(fs.log)
                nfails = len(fails)
                want_regen = table[kind] if kind in table else table.get(None, False)
                missing = ref not in fs.files
                raised = None
                try:
                    r.assertDataFrameCorrect(df, ref, kind=kind)
                except FileNotFoundError as e:
                    raised = e
                touched = [p_ for op, p_ in fs.log[nlog:] if p_ == ref]
                if want_regen:
                    if raised is not None or fs.files.get(ref) != prefix + new or len(fails) != nfails:
                        return False
                else:
                    # normal mode never creates, modifies or deletes the reference - also when it is missing
                    if touched or fs.files.get(ref) != before.get(ref):
                        return False
                    if missing:
                        if raised is None and len(fails) == nfails:
                            return False
                    elif raised is not None or (len(fails) > nfails) != (fs.files[ref] != prefix + new):
                        return False
                if rnd == 0 and k_set2 >= 0:
                    ReferenceTest.set_regeneration(KINDS4[k_set2], f2)
                    table[KINDS4[k_set2]] = f2
    finally:
        (cpm.pd, cpm.default_csv_writer, cpm.PandasComparison.load_csv, ReferenceTest.assertDataFramesEqual) = saved
        ReferenceTest.regenerate = {}
        ReferenceTest.verbose = verbose
    return True


class _NoMsgs:
    lines = []

    def message(self):
        return ''


def k2_ondisk_kinds(method: int, k_assert: int, k_set: int, flag: bool) -> bool:
    """
    pre: 0 <= method < 4 and 0 <= k_assert < 4 and -1 <= k_set < 4
    post: __return__
    """
    # the four on-disk DataFrame assertions (current and legacy names, one file and several) consult the
    # regeneration table under the kind they were given: regeneration writes the reference from the actual file
    # and compares nothing, normal mode compares and writes nothing
    method, k_assert = _c(method, 4), _c(k_assert, 4)
    k_set = _c(k_set + 1, 5) - 1
    fs, r, fails = _mk({})
    calls = []

    class FakePandas:
        def _write_reference_dataframe_from_file(self, actual, expected):
            calls.append(('write', [actual], [expected]))

        def _write_reference_dataframes_from_files(self, actuals, expecteds):
            calls.append(('write', list(actuals), list(expecteds)))

        def check_serialized_dataframe(self, actual, expected, **kw):
            calls.append(('check', [actual], [expected]))
            return (0, _NoMsgs())

        def check_serialized_dataframes(self, actuals, expecteds, **kw):
            calls.append(('check', list(actuals), list(expecteds)))
            return (0, _NoMsgs())
    r.pandas = FakePandas()
    table = {}
    try:
        if k_set >= 0:
            ReferenceTest.set_regeneration(KINDS4[k_set], flag)
            table[KINDS4[k_set]] = flag
        kind = KINDS4[k_assert]
        ref = '/ref/r.csv'
        if method == 0:
            r.assertOnDiskDataFrameCorrect('/out/a.csv', ref, kind=kind)
        elif method == 1:
            r.assertCSVFileCorrect('/out/a.csv', ref, kind=kind)
        elif method == 2:
            r.assertOnDiskDataFramesCorrect(['/out/a.csv'], [ref], kind=kind)
        else:
            r.assertCSVFilesCorrect(['/out/a.csv'], [ref], kind=kind)
    finally:
        ReferenceTest.regenerate = {}
    key = 'csv' if kind == 'parquet' else kind          # ("parquet" is filed under csv by these methods)
    want_regen = table[key] if key in table else table.get(None, False)
    return calls == [('write' if want_regen else 'check', ['/out/a.csv'], ['/ref/r.csv'])]


def k3_regenerate_then_pass(content: str, which: int) -> bool:
    """
    pre: len(content) <= P['nc'] and 0 <= which < 3
    pre: rt.admit(['C10.pdf-reference-encoding'], content, which)
    post: __return__
    """
    which = _c(which, 3)
    ref = '/ref/r.' + P['ext']
    fs, r, fails = _mk({ACT: content})
    verbose = ReferenceTest.verbose
    try:
        with fakefs.patched(fs, rtm, cfm, bcm):
            ReferenceTest.set_regeneration(None, True)
            _do_assert(r, which, content, None, ref)
            if fails or ref not in fs.files:
                return False
            ReferenceTest.regenerate = {}
            n = len(fs.log)
            _do_assert(r, which, content, None, ref)
            if fails or fs.log[n:]:
                return False            # must pass, and a passing assertion writes nothing
    finally:
        ReferenceTest.regenerate = {}
        ReferenceTest.verbose = verbose
    # the reference is read back with the encoding it was written with (None = the locale's, assumed UTF-8);
    # a mismatch only matters for non-ASCII content
    w = fs.encodings.get(ref, ('w', None))[1] or 'utf-8'
    reads = [e or 'utf-8' for p_, e in fs.read_encodings if p_ == ref]
    same_enc = all(e.lower().replace('_', '-') in (w.lower(), 'utf8' if w == 'utf-8' else w) for e in reads)
    # (file-vs-file assertions decode both files the same way, so only the in-memory string form is affected)
    return which != 0 or same_enc or all(ord(c) < 128 for c in content)


@rt.known_class('C10.pdf-reference-encoding')
def _k_pdf(content, which):
    return P.get('ext') == 'pdf' and which == 0 and any(ord(c) > 127 for c in content)


def lift_regen(content, which):
    """public API on real files (UTF-8 locale)"""
    import os
    import shutil
    import tempfile
    d = tempfile.mkdtemp(prefix='vp_c10_')
    fails = []
    try:
        act = os.path.join(d, 'a.txt')
        ref = os.path.join(d, 'r.' + P['ext'])
        with open(act, 'w', newline='', encoding='utf-8') as f:
            f.write(content)
        r = ReferenceTest(lambda ok, msg=None: fails.append(msg) if not ok else None)
        r.verbose = False
        r.files.tmp_dir = d
        ReferenceTest.regenerate = {None: True}
        args = [(content,), (act,), ([act],)][which]
        fn = [r.assertStringCorrect, r.assertTextFileCorrect, r.assertTextFilesCorrect][which]
        fn(args[0], [ref] if which == 2 else ref)
        ReferenceTest.regenerate = {}
        fn(args[0], [ref] if which == 2 else ref)
    finally:
        ReferenceTest.regenerate = {}
        shutil.rmtree(d, ignore_errors=True)
    return not fails


STRIP_ALPHA = ['a', ' ', '\n', '\x0c', '\t', '\r', '\x85', '\u2028']


def k3_regenerate_with_strip(idx: List[int], which: int, lstrip: bool, rstrip: bool) -> bool:
    """
    pre: len(idx) <= P['nc'] and all(0 <= i < len(STRIP_ALPHA) for i in idx) and which == P['which']
    post: __return__
    """
    # "the same assertion" includes its options: with lstrip / rstrip in force on both the regenerating and the checking
    # call, over content made of a letter, blanks, and characters that are line boundaries to str.splitlines()
    which = _c(which, 3)
    content = ''
    for i in idx:
        for k in range(len(STRIP_ALPHA)):
            if i == k:
                content += STRIP_ALPHA[k]
                break
    fs, r, fails = _mk({ACT: content})
    verbose = ReferenceTest.verbose
    opts = {'lstrip': bool(lstrip), 'rstrip': bool(rstrip)}
    try:
        with fakefs.patched(fs, rtm, cfm, bcm):
            ReferenceTest.set_regeneration(None, True)
            _do_assert(r, which, content, None, REF, **opts)
            if fails or REF not in fs.files:
                return False
            ReferenceTest.regenerate = {}
            n = len(fs.log)
            _do_assert(r, which, content, None, REF, **opts)
            if fails or fs.log[n:]:
                return False
    finally:
        ReferenceTest.regenerate = {}
        ReferenceTest.verbose = verbose
    return True


def lift_regen_strip(idx, which, lstrip, rstrip):
    """public API on real files"""
    import os
    import shutil
    import tempfile
    content = ''.join(STRIP_ALPHA[i] for i in idx)
    d = tempfile.mkdtemp(prefix='vp_c10_')
    fails = []
    try:
        act = os.path.join(d, 'a.txt')
        ref = os.path.join(d, 'r.txt')
        with open(act, 'w', newline='', encoding='utf-8') as f:
            f.write(content)
        r = ReferenceTest(lambda ok, msg=None: fails.append(msg) if not ok else None)
        r.verbose = False
        r.files.tmp_dir = d
        fn = [r.assertStringCorrect, r.assertTextFileCorrect, r.assertTextFilesCorrect][which]
        a0 = [content, act, [act]][which]
        ReferenceTest.regenerate = {None: True}
        fn(a0, [ref] if which == 2 else ref, lstrip=bool(lstrip), rstrip=bool(rstrip))
        ReferenceTest.regenerate = {}
        fn(a0, [ref] if which == 2 else ref, lstrip=bool(lstrip), rstrip=bool(rstrip))
    finally:
        ReferenceTest.regenerate = {}
        shutil.rmtree(d, ignore_errors=True)
    return not fails


def k3_binary_regenerate(data: List[int]) -> bool:
    """
    pre: len(data) <= 3 and all(0 <= b <= 255 for b in data)
    post: __return__
    """
    fs, r, fails = _mk({ACT: bytes(data)})
    verbose = ReferenceTest.verbose
    try:
        with fakefs.patched(fs, rtm, cfm, bcm):
            ReferenceTest.set_regeneration(None, True)
            r.assertBinaryFileCorrect(ACT, '/ref/r.bin')
            ReferenceTest.regenerate = {}
            n = len(fs.log)
            r.assertBinaryFileCorrect(ACT, '/ref/r.bin')
            ok = not fails and not fs.log[n:] and fs.files.get('/ref/r.bin') == bytes(data)
    finally:
        ReferenceTest.regenerate = {}
        ReferenceTest.verbose = verbose
    return ok


def _obs():
    obs = []
    Q, T = 'quick', 'thorough'
    what = ('for every argv, after the real _set_flags_from_argv, _should_regenerate(kind) is true for every '
            'kind iff -W/--W/--write-all occurs, else exactly for the kinds named after -w/--w/--write '
            '(comma- or space-separated), else for none')
    for shape, tail, tier, to in (
            [(s, t, Q, 90) for s in ('', '1', '2', 'W') for t in range(4)] +
            [(s, t, Q, 150) for s in ('11', '1W', 'W1', 'WW') for t in (0, 1)] +
            [(s, t, T, 900) for s in ('11', '1W', 'W1', 'WW', '12', '21', '2W', 'W2') for t in (2, 3)] +
            [(s, t, T, 900) for s in ('12', '21', '2W', 'W2', '22', '3') for t in (0, 1)] +
            [(s, 0, T, 900) for s in ('111', '1W1', 'W11', '11W', 'WW1', 'W1W', '1WW', 'WWW')]):
        obs.append(Ob('K1', 'k1_regen', what,
                      'argv shape %r (digit n = symbolic single-dash cluster of exactly n flag letters, any '
                      'characters but "-", space, "w"; W = any of %d menu words by symbolic index) + concrete '
                      'tail %r; kinds probed: %r' % (shape, len(ac.WORDS), ac.TAILS[tail], PROBE_KINDS),
                      param={'shape': shape, 'tail': tail}, timeout=to, tier=tier))
    obs.append(Ob('K1', 'k1_pytest',
                  'pytest route: after referencepytest.ref(request), _should_regenerate(kind) is true for all '
                  'kinds iff --write-all, else exactly for the kinds in --write',
                  'config options symbolic: write_all, wquiet booleans; --write None or <=2 entries from %r'
                  % ac.KINDS, timeout=60, stubs=['pytest request/config: plain object with getoption()']))
    for which, wname in enumerate(['assertStringCorrect', 'assertTextFileCorrect', 'assertTextFilesCorrect',
                                   'assertBinaryFileCorrect']):
        obs.append(Ob('K2', 'k2_only_on_request', '%s writes its reference exactly when the regeneration table says '
                      'so for its kind (own flag, else the None flag, else no) - also when the setting changes '
                      'between two assertions - and in normal mode never creates, modifies or deletes it, whether it '
                      'passes or fails' % wname,
                      'kind of the assertion and of two set_regeneration calls over {None, csv, graph, <no call>}, '
                      'flags symbolic; actual equal to / different from the reference; one or two assertions',
                      param={'which': which}, timeout=600, stubs=['fakefs']))
    obs.append(Ob('K2', 'k2_ondisk_kinds', 'assertOnDiskDataFrameCorrect / assertCSVFileCorrect and their plural forms '
                  'regenerate exactly when the table says so for the kind they were given (reference written from the '
                  'actual file, nothing compared), and otherwise compare and write nothing',
                  '4 methods x kind of the assertion x one set_regeneration call over {None, csv, graph, parquet, <no '
                  'call>} with a symbolic flag', timeout=300,
                  stubs=['PandasComparison -> recorder of write-reference / check calls']))
    for ext in ('parquet', 'csv'):
        obs.append(Ob('K2', 'k2_dataframe', 'assertDataFrameCorrect writes its reference exactly when the regeneration '
                      'table says so for its kind - the label "parquet" being a kind like any other -, also when the '
                      'setting changes between two assertions; in normal mode it never creates, modifies or deletes the '
                      'reference, also when the reference is missing; a regenerated reference then passes',
                      'reference r.%s present/absent; kind of the assertion and of two set_regeneration calls over '
                      '{None, csv, graph, parquet, <no call>}, flags symbolic; equal/different frames; one or two '
                      'assertions' % ext, param={'ext': ext}, timeout=600,
                      stubs=['fakefs', 'DataFrame -> content token with to_parquet; pd.read_parquet / csv writer / '
                                       'load_csv through the fake filesystem; assertDataFramesEqual -> token equality']))
    for ext in ('txt', 'pdf'):
        for nc, tier, to in ((2, 'quick', 400), (3, 'thorough', 3000)):
            obs.append(Ob('K3', 'k3_regenerate_then_pass', 'after a string / text file / list of text files assertion '
                          'has regenerated its reference, the same assertion in normal mode passes and writes '
                          'nothing; the reference is read back with the encoding it was written with',
                          'content: any string len<=%d (incl. CR, LF, no final newline, non-ASCII); reference name '
                          'r.%s' % (nc, ext), param={'nc': nc, 'ext': ext}, timeout=to, tier=tier, stubs=['fakefs'],
                          known=['C10.pdf-reference-encoding'] if ext == 'pdf' else [], lift='lift_regen'))
    for nc, tier, to, wh in [(3, 'quick', 400, w) for w in (0, 1, 2)] + [(4, 'thorough', 3000, w) for w in (0, 1, 2)]:
        obs.append(Ob('K3', 'k3_regenerate_with_strip', 'regenerate-then-check passes when the assertion carries lstrip / '
                      'rstrip (the same options on both calls) and writes nothing on the pass',
                      'content: <=%d characters from {a, space, LF, FF, TAB, CR, NEL, LS}; lstrip, rstrip symbolic; '
                      '%s' % (nc, ['string', 'text file', 'list of text files'][wh]), param={'nc': nc, 'which': wh},
                      timeout=to, tier=tier, stubs=['fakefs'], lift='lift_regen_strip'))
    obs.append(Ob('K3', 'k3_binary_regenerate', 'after assertBinaryFileCorrect has regenerated its reference it holds '
                  'exactly the actual bytes and the same assertion passes in normal mode, writing nothing',
                  'any byte string len<=3', timeout=120, stubs=['fakefs']))
    return obs


OBLIGATIONS = _obs()
ASSUMPTIONS = ['long tdda options occur at most once per command line; nothing but kind names follows --write',
               'ReferenceTest.regenerate is reset before each path (it is process-global class state)']
OUTSIDE = ['unittest.main / pytest option parsing themselves', 'real pandas/pyarrow I/O of DataFrame references (doubled)',
           'locales other than UTF-8']
