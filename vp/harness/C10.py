"""C10 - references are rewritten only on request, and a regenerated reference passes."""
from typing import List, Optional

from vp.ob import Ob
from vp import rt
from vp.harness import argv_common as ac
from tdda.referencetest.referencetest import ReferenceTest

P = rt.param({})
PROBE_KINDS = ['csv', 'graph', 'table', 'zzz', None]


# ---- K1: which kinds regenerate, from argv ---------------------------------
def k1_regen(clusters: List[str], widx: List[int]) -> bool:
    """
    pre: ac.shape_ok(P['shape'], clusters, widx, 0)
    post: __return__
    """
    args = ac.build(P['shape'], clusters, widx)
    out, tagged, check, table, kinds = ac.run_real(args, ac.TAILS[P['tail']])
    eo, et, ec, regen_all, ek = ac.oracle(args, kinds)
    rt_ = ReferenceTest(lambda *a, **k: None)
    for k in PROBE_KINDS:
        want = regen_all or (k is not None and k in ek)
        if bool(rt_._should_regenerate(k)) != want:
            return False
    return True


class _Cfg:
    def __init__(self, d):
        self.d = d

    def getoption(self, name, default=None):
        return self.d.get(name, default)


class _Req:
    def __init__(self, d):
        self.config = _Cfg(d)


def k1_pytest(write_all: bool, wquiet: bool, write: Optional[List[int]]) -> bool:
    """
    pre: write is None or (len(write) <= 2 and all(0 <= i < 4 for i in write))
    post: __return__
    """
    from tdda.referencetest import referencepytest as rp
    ReferenceTest.regenerate = {}
    verbose = ReferenceTest.verbose
    kinds = None if write is None else [ac.KINDS[i] for i in write]
    try:
        r = rp.ref(_Req({'--write-all': write_all, '--wquiet': wquiet, '--write': kinds}))
    finally:
        ReferenceTest.verbose = verbose
    ek = []
    for k in (kinds or []):
        ek.extend(k.split(','))
    for k in PROBE_KINDS:
        want = write_all or (k is not None and k in ek)
        if bool(r._should_regenerate(k)) != want:
            return False
    return True


def _obs():
    obs = []
    Q, T = 'quick', 'thorough'
    what = ('for every argv, after the real _set_flags_from_argv, _should_regenerate(kind) is true for every '
            'kind iff -W/--W/--write-all occurs, else exactly for the kinds named after -w/--w/--write '
            '(comma- or space-separated), else for none')
    for shape, tail, tier, to in (
            [(s, t, Q, 90) for s in ('', '1', '2', 'W') for t in range(4)] +
            [(s, t, Q, 150) for s in ('11', '1W', 'W1', 'WW') for t in (0, 1)] +
            [(s, t, T, 900) for s in ('11', '1W', 'W1', 'WW', '12', '21', '2W', 'W2') for t in (2, 3)] +
            [(s, t, T, 900) for s in ('12', '21', '2W', 'W2', '22', '3') for t in (0, 1)] +
            [(s, 0, T, 900) for s in ('111', '1W1', 'W11', '11W', 'WW1', 'W1W', '1WW', 'WWW')]):
        obs.append(Ob('K1', 'k1_regen', what,
                      'argv shape %r (digit n = symbolic single-dash cluster of exactly n flag letters, any '
                      'characters but "-", space, "w"; W = any of %d menu words by symbolic index) + concrete '
                      'tail %r; kinds probed: %r' % (shape, len(ac.WORDS), ac.TAILS[tail], PROBE_KINDS),
                      param={'shape': shape, 'tail': tail}, timeout=to, tier=tier))
    obs.append(Ob('K1', 'k1_pytest',
                  'pytest route: after referencepytest.ref(request), _should_regenerate(kind) is true for all '
                  'kinds iff --write-all, else exactly for the kinds in --write',
                  'config options symbolic: write_all, wquiet booleans; --write None or <=2 entries from %r'
                  % ac.KINDS, timeout=60, stubs=['pytest request/config: plain object with getoption()']))
    return obs


OBLIGATIONS = _obs()
ASSUMPTIONS = ['long tdda options occur at most once per command line; nothing but kind names follows --write',
               'ReferenceTest.regenerate is reset before each path (it is process-global class state)']
OUTSIDE = ['unittest.main / pytest option parsing themselves']
