"""C16 - CSV files described by CSVW metadata load with the declared types and values."""
import re
from typing import List, Optional

from vp.ob import Ob
from vp import rt

from tdda.serial.csvw import CSVWMetadata, csvw_date_format_to_md_date_format as tr
from tdda.serial.pandasio import to_pandas_read_csv_args
# the reference definition of an ISO-8601 parsing format, written independently of tdda.serial.base.RE_ISO8601
REF_ISO8601 = r'^%Y-%m-%d([T ]%H:%M:%S(\.%f)?)?$'

P = rt.param({})
TOK = ['d', 'dd', 'M', 'MM', 'yy', 'yyyy', 'HH', 'mm', 'ss', 'S', 'SS', 'SSS']
EXP = ['%d', '%d', '%m', '%m', '%y', '%Y', '%H', '%M', '%S', '%f', '%f', '%f']
SEP = ['-', '/', '.', ':', ' ', 'T', '']


@rt.known_class('C16.month-next-to-minute')
def _k_mm(toks, seps):
    """a month field immediately followed by a minute field with no separator (e.g. 'MMmm')"""
    for i in range(len(toks) - 1):
        if toks[i] in (2, 3) and toks[i + 1] == 7 and seps[i] == 6:
            return True
    return False


def _letters_differ(toks, seps):
    """adjacent tokens with no separator must use different letters, else the text is a different token"""
    for i in range(len(toks) - 1):
        if seps[i] == 6 and TOK[toks[i]][0] == TOK[toks[i + 1]][0]:
            return False
    return True


# ---- K1: date-format translation vs token-wise reference --------------------------------------------
def k1_format(toks: List[int], seps: List[int]) -> bool:
    """
    pre: len(toks) == P['ntok'] and len(seps) == len(toks) - 1
    pre: all(0 <= t < 12 for t in toks) and all(0 <= s < P['nsep'] for s in seps)
    pre: _letters_differ(toks, seps)
    pre: rt.admit(['C16.month-next-to-minute'], toks, seps)
    post: __return__
    """
    f = ''
    e = ''
    for i, t in enumerate(toks):
        f += TOK[t]
        e += EXP[t]
        if i < len(seps):
            f += SEP[seps[i]]
            e += SEP[seps[i]]
    out = tr(f)
    if re.match(REF_ISO8601, e):
        return out == 'ISO8601'
    return out == e


def lift_format(toks, seps):
    """public API: write one instant with strftime(reference format), read it back with what tdda gives"""
    import datetime
    import io
    import json
    import pandas as pd
    import tempfile
    import os
    from tdda.serial.reader import csv2pandas
    f = ''
    e = ''
    for i, t in enumerate(toks):
        f += TOK[t]
        e += EXP[t]
        if i < len(seps):
            f += SEP[seps[i]]
            e += SEP[seps[i]]
    dt = datetime.datetime(2011, 12, 13, 14, 15, 16, 170000)
    text = dt.strftime(e)
    try:
        want = datetime.datetime.strptime(text, e)
    except ValueError:
        return True     # the reference format itself is not parseable (e.g. no day): nothing to compare
    d = tempfile.mkdtemp(prefix='vp_c16_')
    try:
        with open(os.path.join(d, 'x.csv'), 'w') as fh:
            fh.write('t\n"%s"\n' % text)
        md = {'@context': 'http://www.w3.org/ns/csvw', 'url': 'x.csv',
              'tableSchema': {'columns': [{'name': 't', 'datatype': {'base': 'datetime', 'format': f}}]}}
        with open(os.path.join(d, 'x-metadata.json'), 'w') as fh:
            json.dump(md, fh)
        df = csv2pandas(os.path.join(d, 'x.csv'), os.path.join(d, 'x-metadata.json'), verbosity=0)
        got = df['t'][0]
        return pd.Timestamp(want) == got
    finally:
        import shutil
        shutil.rmtree(d, ignore_errors=True)


FSEPS = ['.', ':', '-', ' ', '/', 'T', '']
FTOKS = ['S', 'SS', 'SSS']
TSEPS = ['T', ' ', '-', '']


def k1_iso_shapes(tsep: int, fsep: int, ftok: int, has_time: bool, has_frac: bool) -> bool:
    """
    pre: 0 <= tsep < len(TSEPS) and 0 <= fsep < len(FSEPS) and 0 <= ftok < len(FTOKS)
    post: __return__
    """
    for k in range(len(TSEPS)):
        if tsep == k:
            tsep = k
            break
    for k in range(len(FSEPS)):
        if fsep == k:
            fsep = k
            break
    for k in range(len(FTOKS)):
        if ftok == k:
            ftok = k
            break
    f = 'yyyy-MM-dd'
    e = '%Y-%m-%d'
    if has_time:
        f += TSEPS[tsep] + 'HH:mm:ss'
        e += TSEPS[tsep] + '%H:%M:%S'
        if has_frac:
            f += FSEPS[fsep] + FTOKS[ftok]
            e += FSEPS[fsep] + '%f'
    out = tr(f)
    iso = (not has_time) or (TSEPS[tsep] in ('T', ' ') and ((not has_frac) or FSEPS[fsep] == '.'))
    return out == ('ISO8601' if iso else e)


# ---- K2: metadata -> read_csv arguments -------------------------------------------------------------
TYPES = ['boolean', 'integer', 'string', 'number', 'date', 'datetime', 'double', 'anyURI', 'time', 'dateTime',
         'unsignedByte', 'frobnicate']
MTYPE = {'boolean': 'bool', 'integer': 'int', 'string': 'string', 'number': 'number', 'date': 'date',
         'datetime': 'datetime', 'double': 'number', 'anyURI': 'string', 'time': 'string', 'dateTime': 'datetime',
         'unsignedByte': 'int'}
PD = {'bool': 'boolean', 'int': 'Int64', 'string': 'string', 'number': 'float'}
DELIMS = [None, ',', '|', '\t', ';']
ENCS = [None, 'utf-8', 'latin-1', 'utf-16']
DFMT = [None, 'dd/MM/yyyy', 'yyyy-MM-dd', 'yyyy-MM-ddTHH:mm:ss']
DFMT_OUT = [None, '%d/%m/%Y', 'ISO8601', 'ISO8601']


def _mode_ok(mode, t0, t1, f0, d, enc, hdr, hrc, as_dict):
    if mode == 'types':         # every pair of types / formats, default dialect
        return d == 0 and enc == 0 and hdr == 0 and hrc == 0
    if mode == 'dialect':       # every dialect combination, fixed column types
        return t0 == 1 and t1 == 2 and f0 == 0 and not as_dict
    # 'dates': a formatted date column under every header setting
    return t0 in (4, 5) and t1 == 0 and d == 0 and enc == 0


def k2_kwargs(t0: int, t1: int, f0: int, d: int, enc: int, hdr: int, hrc: int, as_dict: bool) -> bool:
    """
    pre: 0 <= t0 < len(TYPES) and 0 <= t1 < len(TYPES) and 0 <= f0 < 4
    pre: 0 <= d < 5 and 0 <= enc < 4 and 0 <= hdr < 3 and 0 <= hrc < 3
    pre: not (hdr == 1 and hrc == 1) and not (hdr == 2 and hrc == 2)
    pre: _mode_ok(P['mode'], t0, t1, f0, d, enc, hdr, hrc, as_dict)
    post: __return__
    """
    dialect = {}
    if DELIMS[d] is not None:
        dialect['delimiter'] = DELIMS[d]
    if ENCS[enc] is not None:
        dialect['encoding'] = ENCS[enc]
    if hdr:
        dialect['header'] = (hdr == 1)
    if hrc:
        dialect['headerRowCount'] = hrc - 1
    col0 = {'name': 'a', 'datatype': TYPES[t0]}
    is_date0 = MTYPE.get(TYPES[t0], '').startswith('date')
    if is_date0 and DFMT[f0] is not None:
        if as_dict:
            col0['datatype'] = {'base': TYPES[t0], 'format': DFMT[f0]}
        else:
            col0['format'] = DFMT[f0]
    spec_ = {'@context': 'http://www.w3.org/ns/csvw', 'url': 'x.csv', 'dialect': dialect,
             'tableSchema': {'columns': [col0, {'name': 'b', 'datatype': TYPES[t1]}]}}
    md = CSVWMetadata(spec_, verbosity=0)
    kw = to_pandas_read_csv_args(md)
    cols = (('a', TYPES[t0]), ('b', TYPES[t1]))
    want = {}
    dt = {n: PD[MTYPE[t]] for n, t in cols if MTYPE.get(t) in PD}
    want['dtype'] = dt or None
    dates = [n for n, t in cols if MTYPE.get(t, '').startswith('date')]
    if dates:
        want['parse_dates'] = dates
        want['date_format'] = {n: 'ISO8601' for n in dates}
        if is_date0 and DFMT[f0] is not None:
            want['date_format']['a'] = DFMT_OUT[f0]
    if DELIMS[d] is not None:
        want['sep'] = DELIMS[d]
    if ENCS[enc] is not None:
        want['encoding'] = ENCS[enc]
    if hrc == 1 or hdr == 2:
        want['header'] = None
        want['names'] = ['a', 'b']
    return kw == want


def lift_kwargs(t0, t1, f0, d, enc, hdr, hrc, as_dict):
    """public API: a two-row file without/with header per the dialect loads with the declared names"""
    import json
    import os
    import shutil
    import tempfile
    from tdda.serial.reader import csv2pandas
    if not k2_kwargs(t0, t1, f0, d, enc, hdr, hrc, as_dict) and not (hrc == 1 or hdr == 2):
        return False
    no_header = (hrc == 1 or hdr == 2)
    tdir = tempfile.mkdtemp(prefix='vp_c16_')
    try:
        sep = DELIMS[d] or ','
        rows = ([] if no_header else ['a%sb' % sep]) + ['1%sx' % sep, '2%sy' % sep]
        with open(os.path.join(tdir, 'x.csv'), 'w', encoding=ENCS[enc] or 'utf-8') as fh:
            fh.write('\n'.join(rows) + '\n')
        dialect = {}
        if DELIMS[d] is not None:
            dialect['delimiter'] = DELIMS[d]
        if ENCS[enc] is not None:
            dialect['encoding'] = ENCS[enc]
        if hdr:
            dialect['header'] = (hdr == 1)
        if hrc:
            dialect['headerRowCount'] = hrc - 1
        md = {'@context': 'http://www.w3.org/ns/csvw', 'url': 'x.csv', 'dialect': dialect,
              'tableSchema': {'columns': [{'name': 'a', 'datatype': 'integer'}, {'name': 'b', 'datatype': 'string'}]}}
        with open(os.path.join(tdir, 'x-metadata.json'), 'w') as fh:
            json.dump(md, fh)
        df = csv2pandas(os.path.join(tdir, 'x.csv'), os.path.join(tdir, 'x-metadata.json'), verbosity=0)
        return list(df.columns) == ['a', 'b'] and list(df['a']) == [1, 2] and list(df['b']) == ['x', 'y']
    finally:
        shutil.rmtree(tdir, ignore_errors=True)


def k2_booleans(T: str, F: str, second: bool) -> bool:
    """
    pre: 1 <= len(T) <= 2 and 1 <= len(F) <= 2 and T != F
    pre: all(c in 'TF1' for c in T) and all(c in 'TF1' for c in F)
    post: __return__
    """
    cols = [{'name': 'a', 'datatype': {'base': 'boolean', 'format': T + '|' + F}}]
    if second:
        cols.append({'name': 'b', 'datatype': {'base': 'boolean', 'format': 'Y|N'}})
    spec_ = {'@context': 'http://www.w3.org/ns/csvw', 'url': 'x.csv', 'tableSchema': {'columns': cols}}
    md = CSVWMetadata(spec_, verbosity=0)
    kw = to_pandas_read_csv_args(md)
    wt = {T} | ({'Y'} if second else set())
    wf = {F} | ({'N'} if second else set())
    if wt & wf:
        return 'true_values' not in kw or not (set(kw['true_values']) & set(kw['false_values']))
    return set(kw.get('true_values', [])) == wt and set(kw.get('false_values', [])) == wf


def _obs():
    obs = []
    what = ('csvw_date_format_to_md_date_format equals the token-wise reference translation (d,dd->%d; M,MM->%m; '
            'yy->%y; yyyy->%Y; HH->%H; mm->%M; ss->%S; S..SSS->%f; separators kept), or ISO8601 exactly when the '
            'reference output matches RE_ISO8601')
    for ntok, nsep, tier, to in ((1, 7, 'quick', 30), (2, 7, 'quick', 240), (3, 2, 'thorough', 3000),
                                 (3, 7, 'thorough', 3000), (4, 2, 'thorough', 3000)):
        obs.append(Ob('K1', 'k1_format', what,
                      '%d token(s) by symbolic index over 12 field tokens; separators by symbolic index over %s'
                      % (ntok, SEP[:nsep] if nsep < 7 else (SEP[:6] + ['<none>'])),
                      param={'ntok': ntok, 'nsep': nsep}, timeout=to, tier=tier, lift='lift_format',
                      known=['C16.month-next-to-minute'] if (nsep == 7 and ntok >= 2) else []))
    obs.append(Ob('K1', 'k1_iso_shapes', 'ISO-shaped formats yyyy-MM-dd[<sep>HH:mm:ss[<sep>S..SSS]]: the translation is '
                  'ISO8601 exactly when the time separator is T or space and the fraction separator is a dot; otherwise '
                  'the explicit parsing format', '%d time separators x %d fraction separators x 3 fraction tokens x '
                  'with/without time and fraction' % (len(TSEPS), len(FSEPS)), timeout=300))
    for mode, bound in (('types', '2 columns; datatypes by symbolic index over %d CSVW type names (incl. unknown) x '
                         'date format over %d menu entries in both spellings; default dialect' % (len(TYPES), len(DFMT))),
                        ('dialect', 'integer+string columns; delimiter 5 x encoding 4 x header {absent,true,false} x '
                         'headerRowCount {absent,0,1} (contradictory pairs excluded)'),
                        ('dates', 'date/datetime column with every format spelling + boolean column; header x '
                         'headerRowCount as above')):
        obs.append(Ob('K2', 'k2_kwargs', 'CSVWMetadata(spec) -> to_pandas_read_csv_args gives exactly: dtype per '
                      'declared non-date type, parse_dates/date_format for date types, sep, encoding, and '
                      'header=None with names=<declared names> when the dialect says there is no header row',
                      bound, param={'mode': mode}, timeout=300, lift='lift_kwargs'))
    obs.append(Ob('K2', 'k2_booleans', 'boolean format "T|F" yields true_values/false_values holding exactly the '
                  'declared spellings', 'T, F symbolic strings len 1..2 over the alphabet {T,F,1} (split/set operations realise the strings), optional second boolean column '
                  'Y|N', timeout=240))
    return obs


OBLIGATIONS = _obs()
ASSUMPTIONS = ['tokens adjacent without a separator use different letters (otherwise the text denotes another token)']
OUTSIDE = ['pandas.read_csv / strptime themselves (reached only by the concrete replay of counterexamples)',
           'type upgrade after loading; titles/altnames; multi-table CSVW']
