"""C17 - the tdda command line gives the same constraints and verdicts as the library.

The CLI is argv -> flags -> keyword arguments -> the same library call; that plumbing is what is decided here.
"""
import io
import contextlib
from typing import List, Optional

from vp.ob import Ob
from vp import rt
from vp.doubles import fakefs

import tdda.constraints.pd.constraints as pc
import tdda.constraints.pd.verify as pv
import tdda.constraints.pd.detect as pdet
import tdda.constraints.pd.discover as pdis
import tdda.constraints.console as console
from tdda.constraints.pd.extension import TDDAPandasExtension

P = rt.param({})


def _pick(idx, menu):
    """concrete per path (a symbolic index into a list does not fork by itself)"""
    out = []
    for i in idx:
        for k in range(len(menu)):
            if i == k:
                out.append(menu[k])
                break
    return out


def _c(i, n):
    """concretise a small symbolic int by branching (indexing a list of classes/functions with a symbolic int
    yields a symbolic object CrossHair cannot call)"""
    for k in range(n):
        if i == k:
            return k
    return n - 1


def _quiet(fn, *a):
    err = io.StringIO()
    with contextlib.redirect_stderr(err), contextlib.redirect_stdout(io.StringIO()):
        try:
            return ('ok', fn(*a))
        except SystemExit as e:
            return ('exit', e.code)


# ---- K1: flag translation ------------------------------------------------------------------------------
V_FLAGS = ['-a', '--all', '-f', '--fields', '-7', '--ascii', '-t strict', '--type_checking sloppy',
           '--epsilon 0.5', '-epsilon 0', '--bogus', '-x']


def k1_verify_flags(idx: List[int], with_constraints: bool) -> bool:
    """
    pre: len(idx) <= P['n'] and all(0 <= i < len(V_FLAGS) for i in idx)
    post: __return__
    """
    toks = _pick(idx, V_FLAGS)
    args = []
    for t in toks:
        args.extend(t.split(' '))
    args.append('data.csv')
    if with_constraints:
        args.append('c.tdda')
    kind, r = _quiet(pv.pd_verify_params, args)
    if '--bogus' in toks or '-x' in toks:
        return kind == 'exit' and r == 1
    if ('-f' in toks or '--fields' in toks) and ('-a' in toks or '--all' in toks):
        return kind == 'exit' and r == 1          # "all fields" with "only failing fields": contradictory
    if kind != 'ok':
        return False
    want = {'report': 'all', 'ascii': False, 'df_path': 'data.csv',
            'constraints_path': 'c.tdda' if with_constraints else None}
    if '-f' in toks or '--fields' in toks:
        want['report'] = 'fields'
    if '-7' in toks or '--ascii' in toks:
        want['ascii'] = True
    tc = [t.split(' ')[1] for t in toks if t.startswith('-t ') or t.startswith('--type_checking')]
    if tc:
        want['type_checking'] = tc[-1]
    eps = [float(t.split(' ')[1]) for t in toks if 'epsilon' in t]
    if eps:
        want['epsilon'] = eps[-1]
    return r == want


D_FLAGS = ['--write-all', '--per-constraint', '--no-per-constraint', '--no-output-fields', '--output-fields a b',
           '--output-fields', '--interleave', '--index', '--int', '-7', '--epsilon 0.01', '--nonsense', '--all', '-f']


def k1_detect_flags(idx: List[int], npos: int) -> bool:
    """
    pre: len(idx) <= P['n'] and all(0 <= i < len(D_FLAGS) for i in idx)
    pre: npos == P['npos']
    post: __return__
    """
    toks = _pick(idx, D_FLAGS)
    pos = ['data.csv', 'c.tdda', 'bads.csv'][:npos]
    # positionals first: "--output-fields" swallows every following bare word
    args = list(pos)
    for t in toks:
        args.extend(t.split(' '))
    kind, r = _quiet(pdet.pd_detect_params, args)
    if '--nonsense' in toks:
        return kind == 'exit' and r == 1
    if '--per-constraint' in toks and '--no-per-constraint' in toks:
        return kind == 'exit' and r == 1
    if '--all' in toks and '-f' in toks:
        return kind == 'exit' and r == 1
    last_of = None
    for t in toks:
        if t.startswith('--output-fields'):
            last_of = t
    fields = None if last_of is None else last_of.split(' ')[1:]
    if fields is not None and '--no-output-fields' in toks:     # (bare --output-fields means ALL the original columns)
        return kind == 'exit' and r == 1
    if kind != 'ok':
        return False
    want = {'report': 'records', 'ascii': '-7' in toks, 'in_place': False,
            'df_path': 'data.csv', 'constraints_path': pos[1] if npos > 1 else None,
            'outpath': pos[2] if npos > 2 else None}
    if '--write-all' in toks:
        want['write_all'] = True
    if '--no-per-constraint' not in toks:
        want['per_constraint'] = True
    if '--index' in toks:
        want['index'] = True
    if '--int' in toks:
        want['boolean_ints'] = True
    if '--interleave' in toks:
        want['interleave'] = True
    if '--epsilon 0.01' in toks:
        want['epsilon'] = 0.01
    if fields is not None:
        want['output_fields'] = fields
    elif '--no-output-fields' not in toks:
        want['output_fields'] = []
    return r == want


def k1_discover_flags(rex: int, ascii_: bool, bogus: bool, out: int) -> bool:
    """
    pre: 0 <= rex < 7 and 0 <= out < 3
    post: __return__
    """
    rex, out = _c(rex, 7), _c(out, 3)
    args = ([[], ['-r'], ['--rex'], ['-R'], ['-r', '-R'], ['--norex', '--rex'], ['-rR']][rex]
            + (['-7'] if ascii_ else []) + (['--what'] if bogus else []))
    args.append('data.parquet')
    if out:
        args.append(['x.tdda', '-'][out - 1])
    kind, r = _quiet(pdis.pd_discover_params, args)
    if bogus or rex >= 4:                         # with and without regular expressions: contradictory
        return kind == 'exit' and r == 1
    return kind == 'ok' and r == {'inc_rex': rex in (1, 2), 'df_path': 'data.parquet',
                                  'constraints_path': [None, 'x.tdda', '-'][out]}


# ---- K2: dispatch -------------------------------------------------------------------------------------------
WORDS = ['data.csv', 'data.parquet', 'x.tdda', '-', 'notes.txt', 'table', '-a', 'data.psv', 'data.tsv', 'a.b.csv',
         'csv', 'data.CSV', 'm.json', 'data.xlsx']
KNOWN_EXT = ('.csv', '.psv', '.tsv', '.parquet', '.json', '.yaml')


def k2_dispatch(cmd: int, idx: List[int]) -> bool:
    """
    pre: cmd == P['cmd'] and len(idx) <= 2 and all(0 <= i < len(WORDS) for i in idx)
    post: __return__
    """
    words = _pick(idx, WORDS)
    cmd = _c(cmd, 3)
    name = ['discover', 'verify', 'detect'][cmd]
    calls = []
    saved = (TDDAPandasExtension.discover, TDDAPandasExtension.verify, TDDAPandasExtension.detect,
             console.load_all_extensions)
    TDDAPandasExtension.discover = lambda self: calls.append(('discover', list(self.argv)))
    TDDAPandasExtension.verify = lambda self: calls.append(('verify', list(self.argv)))
    TDDAPandasExtension.detect = lambda self: calls.append(('detect', list(self.argv)))
    console.load_all_extensions = lambda argv, verbose=False: [TDDAPandasExtension(argv, verbose=verbose)]
    try:
        kind, r = _quiet(console.main_with_argv, ['tdda', name] + words)
    finally:
        (TDDAPandasExtension.discover, TDDAPandasExtension.verify, TDDAPandasExtension.detect,
         console.load_all_extensions) = saved
    applicable = any(w == '-' or any(w.endswith(e) and len(w) > len(e) for e in KNOWN_EXT) for w in words)
    if applicable:
        return calls == [(name, [name] + words)]
    # nothing named can be read (a missing file or one of a kind no extension handles): nothing runs and the
    # command ends with a non-zero status
    return calls == [] and kind == 'exit' and r not in (0, None)


# ---- K3: file helpers ------------------------------------------------------------------------------------------
class _DF:
    def __init__(self, log):
        self.log = log

    def to_parquet(self, path=None, index=False):
        self.log.append(('parquet', path))


EXTS = ['csv', 'psv', 'tsv', 'txt', 'parquet', 'xlsx', '', 'CSV', 'tdda']


def k3_save_df(stem: int, ext: int, special: int) -> bool:
    """
    pre: 0 <= stem < 3 and 0 <= ext < len(EXTS) and 0 <= special < 3
    post: __return__
    """
    stem, ext, special = _c(stem, 3), _c(ext, len(EXTS)), _c(special, 3)
    log = []
    if special == 1:
        path = '-'
    elif special == 2:
        path = None
    else:
        path = ['out', 'dir.v2/out', '.hidden'][stem] + ('.' + EXTS[ext] if EXTS[ext] else '')
    saved = pc.default_csv_writer
    pc.default_csv_writer = lambda df, p, **kw: (log.append(('csv', p)), 'a,b\n')[1]
    try:
        buf = io.StringIO()
        with contextlib.redirect_stdout(buf):
            try:
                pc.save_df(_DF(log), path, index=False)
                raised = None
            except Exception as e:      # noqa
                raised = e
    finally:
        pc.default_csv_writer = saved
    if special:
        # standard output only: the CSV text is printed, no file is written, no error
        return raised is None and log == [('csv', None)] and 'a,b' in buf.getvalue()
    e = EXTS[ext]
    fmt = e if (e and not (stem == 2 and False)) else 'csv'
    if path == '.hidden' or e == '':
        fmt = 'csv'         # no extension: csv
    if fmt == 'parquet':
        return raised is None and log == [('parquet', path)]
    if fmt in ('csv', 'psv', 'tsv', 'txt'):
        return raised is None and log == [('csv', path)]
    # unknown format: an exception, raised before anything is written
    return raised is not None and not isinstance(raised, (NameError, UnboundLocalError)) and log == []


def k3_missing_input(cmd: int, exists: bool, flags: int) -> bool:
    """
    pre: 0 <= cmd < 3 and 0 <= flags < 3
    post: __return__
    """
    cmd, flags = _c(cmd, 3), _c(flags, 3)
    fs = fakefs.FakeFS({'/cwd/data.csv': 'a\n1\n'} if exists else {}, dirs=['/cwd'])
    argv = [['discover', 'verify', 'detect'][cmd]] + [[], ['-7'], ['--bogus']][flags] + ['/cwd/data.csv', '/cwd/c.tdda']
    if cmd == 2:
        argv.append('/cwd/bads.csv')
    reached = []
    mods = (pdis, pv, pdet)
    saved = (pdis.discover_df_from_file, pv.verify_df_from_file, pdet.detect_df_from_file)
    pdis.discover_df_from_file = lambda **kw: reached.append(kw)
    pv.verify_df_from_file = lambda **kw: reached.append(kw)
    pdet.detect_df_from_file = lambda **kw: reached.append(kw)
    try:
        with fakefs.patched(fs, pdis, pv, pdet):
            obj = [pdis.PandasDiscoverer, pv.PandasVerifier, pdet.PandasDetector][cmd](argv)
            kind, r = _quiet(getattr(obj, ['discover', 'verify', 'detect'][cmd]))
    finally:
        (pdis.discover_df_from_file, pv.verify_df_from_file, pdet.detect_df_from_file) = saved
    if fs.written():
        return False
    if flags == 2 or not exists:
        return kind == 'exit' and r == 1 and reached == []
    return kind == 'ok' and len(reached) == 1 and reached[0]['df_path'] == '/cwd/data.csv'


# ---- K4: the file front ends hand the library exactly what the flags said --------------------------------------
PATHS = ['data.csv', 'dir.v1/data.csv', 'dump.csv.d/dump.csv', 'sales.csv_export.csv', 'x.parquet', 'a.b.c.csv']


def k4_forwarding(cmd: int, pidx: int, with_cons: bool, eps: bool, tc: bool, extra: int) -> bool:
    """
    pre: 0 <= cmd < 2 and 0 <= pidx < len(PATHS) and 0 <= extra < 4
    post: __return__
    """
    cmd, pidx, extra = _c(cmd, 2), _c(pidx, len(PATHS)), _c(extra, 4)
    path = PATHS[pidx]
    calls = []
    frame = object()
    kw = {}
    if eps:
        kw['epsilon'] = 0.1
    if tc:
        kw['type_checking'] = 'strict'
    if cmd == 0:
        kw.update([{}, {'report': 'fields'}, {'ascii': True}, {'report': 'all', 'ascii': True}][extra])
    else:
        kw.update([{}, {'write_all': True}, {'per_constraint': True, 'output_fields': ['a']},
                   {'index': True, 'boolean_ints': True, 'interleave': True}][extra])
    cons = 'given.tdda' if with_cons else None
    mod = [pv, pdet][cmd]
    saved = (mod.load_df, getattr(mod, 'verify_df', None), getattr(mod, 'detect_df', None))
    mod.load_df = lambda p, **k: (calls.append(('load', p)), frame)[1]
    if cmd == 0:
        mod.verify_df = lambda df, c, **k: (calls.append(('lib', df, c, dict(k))), 'RESULT')[1]
    else:
        mod.detect_df = lambda df, c, **k: (calls.append(('lib', df, c, dict(k))), 'RESULT')[1]
    try:
        if cmd == 0:
            kind, r = _quiet(lambda: pv.verify_df_from_file(path, cons, verbose=False, **kw))
        else:
            kind, r = _quiet(lambda: pdet.detect_df_from_file(path, cons, outpath='bads.csv', verbose=False, **kw))
    finally:
        mod.load_df = saved[0]
        if cmd == 0:
            mod.verify_df = saved[1]
        else:
            mod.detect_df = saved[2]
    import os.path
    want_cons = cons if with_cons else os.path.splitext(path)[0] + '.tdda'
    want_kw = dict(kw)
    if cmd == 1:
        want_kw.update({'outpath': 'bads.csv', 'rownumber_is_index': False})
    return (kind == 'ok' and r == 'RESULT' and len(calls) == 2 and calls[0] == ('load', path)
            and calls[1][1] is frame and calls[1][2] == want_cons and calls[1][3] == want_kw)


def _obs():
    obs = []
    for n, tier, to in ((2, 'quick', 300), (3, 'thorough', 2400)):
        obs.append(Ob('K1', 'k1_verify_flags', 'tdda verify: argv -> keyword arguments equal the documented meaning '
                      '(report all/fields, ascii, type_checking, epsilon, positional paths); an unknown flag, or --all '
                      'with --fields, exits 1',
                      'any sequence of <=%d flags from a menu of %d (incl. 2 unknown) + 1..2 positionals, through the '
                      'real argparse parser' % (n, len(V_FLAGS)), param={'n': n}, timeout=to, tier=tier))
        for npos in (1, 2, 3):
            obs.append(Ob('K1', 'k1_detect_flags', 'tdda detect: argv -> keyword arguments equal the documented '
                          'meaning; --per-constraint with --no-per-constraint, --output-fields F with '
                          '--no-output-fields, --all with --fields, or an unknown flag, exit 1',
                          'any sequence of <=%d flags from a menu of %d + %d positional(s)' % (n, len(D_FLAGS), npos),
                          param={'n': n, 'npos': npos}, timeout=to, tier=tier))
    obs.append(Ob('K1', 'k1_discover_flags', 'tdda discover: inc_rex iff -r/--rex; paths as given; unknown flag, or '
                  '--rex with --norex, exits 1', '7 rex spellings (incl. 3 contradictory) x ascii x unknown flag x 3 '
                  'output forms', timeout=120))
    for cmd, name in enumerate(['discover', 'verify', 'detect']):
        obs.append(Ob('K2', 'k2_dispatch', '%s reaches the pandas front end, once, with the arguments unchanged, iff '
                      'some argument is "-" or has a known extension; otherwise nothing is run' % name,
                      '<=2 arguments from a menu of %d words' % len(WORDS), param={'cmd': cmd}, timeout=300,
                      stubs=['extension methods record instead of running',
                             'load_all_extensions -> the pandas extension']))
    obs.append(Ob('K4', 'k4_forwarding', 'verify_df_from_file / detect_df_from_file load the named file once and call '
                  'the library function on that frame with exactly the keyword arguments they were given (epsilon, '
                  'type_checking, report/detection options) and the constraints file named - by default the input '
                  'path with its extension replaced by .tdda',
                  '2 commands x %d input paths (dots in directory and stem, the extension text repeated) x '
                  'constraints given/implicit x epsilon x type_checking x 4 option sets' % len(PATHS), timeout=300,
                  stubs=['load_df / verify_df / detect_df -> recorders']))
    obs.append(Ob('K3', 'k3_save_df', 'save_df: "-"/None => standard output only, no error; known text extensions => '
                  'one CSV write to that path; parquet => one parquet write; unknown extension => an exception before '
                  'any write', '3 stems x %d extensions, plus "-" and None' % len(EXTS), timeout=120,
                  stubs=['default_csv_writer / DataFrame.to_parquet record instead of writing']))
    obs.append(Ob('K3', 'k3_missing_input', 'a missing input file or an unknown flag ends discover/verify/detect with '
                  'exit status 1 before the library is called and before anything is written',
                  '3 commands x input present/absent x {no flag, -7, unknown flag}', timeout=120,
                  stubs=['fakefs', '*_df_from_file record instead of running']))
    return obs


OBLIGATIONS = _obs()
ASSUMPTIONS = ['"same constraints and verdicts as the library" reduces to: the CLI calls the same library function with '
               'the keyword arguments K1 decides, on the frame load_df returns']
OUTSIDE = ['CSV/parquet loading and saving themselves; stdin; that the loaded frame equals "the" frame']
