"""C02 - verification verdicts equal the documented meaning of each constraint."""
import datetime
from typing import List, Optional

from vp.ob import Ob
from vp import rt
from vp.doubles import symdf
from vp.doubles.symdf import SymFrame, SymSeries

import tdda.constraints.pd.constraints as pc
from tdda.constraints import base
from tdda.constraints.base import (MinConstraint, MaxConstraint, SignConstraint, TypeConstraint, MaxNullsConstraint,
                                   NoDuplicatesConstraint, AllowedValuesConstraint, MinLengthConstraint,
                                   MaxLengthConstraint, RexConstraint, DatasetConstraints, FieldConstraints,
                                   Verification, TDDAObject)

P = rt.param({})
PRECS = [None, 'closed', 'open', 'fuzzy']
SIGNS = ['positive', 'non-negative', 'zero', 'non-positive', 'negative', 'null']
TYPES = ['bool', 'int', 'real', 'date', 'string']


def _verifier(cols, type_checking=None, epsilon=None):
    return pc.PandasConstraintVerifier(SymFrame(cols), epsilon=epsilon, type_checking=type_checking)


def _nn(vals):
    return [v for v in vals if v is not None]


# ---- K1: per kind -------------------------------------------------------------------------------------
def k1_min_max(vals: List[Optional[int]], bound: Optional[int], prec: int, is_max: bool, missing: bool) -> bool:
    """
    pre: len(vals) <= P['rows'] and 0 <= prec < 4
    post: __return__
    """
    with symdf.patched(pc):
        v = _verifier({} if missing else {'c': symdf.int_series(vals)}, epsilon=0)
        C = MaxConstraint if is_max else MinConstraint
        verify = v.verify_max_constraint if is_max else v.verify_min_constraint
        got = bool(verify('c', C(bound, precision=PRECS[prec])))
    if missing:
        return got is False
    if bound is None:
        return got is True
    nn = _nn(vals)
    p = PRECS[prec] or 'fuzzy'
    if is_max:
        want = all((x < bound) if p == 'open' else (x <= bound) for x in nn)      # epsilon 0: fuzzy == closed
    else:
        want = all((x > bound) if p == 'open' else (x >= bound) for x in nn)
    return got == want


EPOCH = datetime.datetime(2000, 1, 1)


def _day(d):
    return None if d is None else EPOCH + datetime.timedelta(days=d)


def k1_date_min_max(days: List[Optional[int]], bound: int, prec: int, is_max: bool) -> bool:
    """
    pre: len(days) <= P['rows'] and 0 <= prec < 4 and 0 <= bound <= 3 and all(d is None or 0 <= d <= 3 for d in days)
    post: __return__
    """
    # the documented meaning of a precision does not depend on the kind of value: an open date bound is strict,
    # a closed one is not; fuzziness has no meaning for dates, so fuzzy (the default) is read as closed
    with symdf.patched(pc):
        v = _verifier({'c': symdf.date_series([_day(d) for d in days])}, epsilon=0.01)
        C = MaxConstraint if is_max else MinConstraint
        verify = v.verify_max_constraint if is_max else v.verify_min_constraint
        got = bool(verify('c', C(_day(bound), precision=PRECS[prec])))    # get_date always yields datetimes
    nn = _nn(days)
    p = PRECS[prec] or 'fuzzy'
    if is_max:
        want = all((x < bound) if p == 'open' else (x <= bound) for x in nn)
    else:
        want = all((x > bound) if p == 'open' else (x >= bound) for x in nn)
    return got == want


def k1_precision_dispatch(vals: List[Optional[int]], bound: int, prec: int, is_max: bool, fz: bool) -> bool:
    """
    pre: 1 <= len(vals) <= P['rows'] and 0 <= prec < 4
    pre: any(v is not None for v in vals)
    post: __return__
    """
    # which comparison decides, for each precision: the fuzzy helpers are replaced by a recorder whose answer
    # is ARBITRARY (fz), so the verdict may depend on it only where the documentation says "fuzzy"
    import tdda.constraints.baseconstraints as bcm
    calls = []

    def rec(a, b, eps):
        calls.append((a, b, eps))
        return fz
    saved = (bcm.fuzzy_greater_than, bcm.fuzzy_less_than)
    bcm.fuzzy_greater_than = rec
    bcm.fuzzy_less_than = rec
    try:
        with symdf.patched(pc):
            v = _verifier({'c': symdf.int_series(vals)}, epsilon=0.25)
            C = MaxConstraint if is_max else MinConstraint
            verify = v.verify_max_constraint if is_max else v.verify_min_constraint
            got = bool(verify('c', C(bound, precision=PRECS[prec])))
    finally:
        bcm.fuzzy_greater_than, bcm.fuzzy_less_than = saved
    nn = _nn(vals)
    ext = max(nn) if is_max else min(nn)
    p = PRECS[prec] or 'fuzzy'
    if p == 'closed':
        return calls == [] and got == ((ext <= bound) if is_max else (ext >= bound))
    if p == 'open':
        return calls == [] and got == ((ext < bound) if is_max else (ext > bound))
    return calls == [(ext, bound, 0.25)] and got == fz


def k1_sign(vals: List[Optional[int]], s: int, null_value: bool, missing: bool) -> bool:
    """
    pre: len(vals) <= P['rows'] and 0 <= s < 6
    post: __return__
    """
    with symdf.patched(pc):
        v = _verifier({} if missing else {'c': symdf.int_series(vals)})
        got = bool(v.verify_sign_constraint('c', SignConstraint(None if null_value else SIGNS[s])))
    if missing:
        return got is False
    if null_value:
        return got is True
    nn = _nn(vals)
    name = SIGNS[s]
    if name == 'positive':
        want = all(x > 0 for x in nn)
    elif name == 'non-negative':
        want = all(x >= 0 for x in nn)
    elif name == 'zero':
        want = all(x == 0 for x in nn)
    elif name == 'non-positive':
        want = all(x <= 0 for x in nn)
    elif name == 'negative':
        want = all(x < 0 for x in nn)
    else:
        want = len(nn) == 0
    return got == want


def k1_nulls_dups(vals: List[Optional[int]], max_nulls: Optional[int], nodup: int, missing: bool) -> bool:
    """
    pre: len(vals) <= P['rows'] and 0 <= nodup < 3
    pre: max_nulls is None or max_nulls >= 0
    post: __return__
    """
    with symdf.patched(pc):
        v = _verifier({} if missing else {'c': symdf.int_series(vals)})
        g1 = bool(v.verify_max_nulls_constraint('c', MaxNullsConstraint(max_nulls)))
        g2 = bool(v.verify_no_duplicates_constraint('c', NoDuplicatesConstraint([None, True, False][nodup])))
    if missing:
        return g1 is False and g2 is False
    nulls = len(vals) - len(_nn(vals))
    w1 = True if max_nulls is None else nulls <= max_nulls
    nn = _nn(vals)
    distinct = all(nn[i] != nn[j] for i in range(len(nn)) for j in range(i + 1, len(nn)))
    w2 = True if nodup != 1 else distinct
    return g1 == w1 and g2 == w2


def k1_lengths(vals: List[Optional[str]], lo: Optional[int], hi: Optional[int], missing: bool,
               as_int_col: bool) -> bool:
    """
    pre: len(vals) <= P['rows'] and all(v is None or len(v) <= 3 for v in vals)
    post: __return__
    """
    with symdf.patched(pc):
        if missing:
            cols = {}
        elif as_int_col:
            cols = {'c': symdf.int_series([None if v is None else len(v) for v in vals])}
        else:
            cols = {'c': symdf.str_series(vals)}
        v = _verifier(cols)
        g1 = bool(v.verify_min_length_constraint('c', MinLengthConstraint(lo)))
        g2 = bool(v.verify_max_length_constraint('c', MaxLengthConstraint(hi)))
    if missing:
        return g1 is False and g2 is False
    nn = _nn(vals)
    if as_int_col:       # a length constraint on a non-string field fails (unless its value is null)
        return g1 == (lo is None) and g2 == (hi is None)
    w1 = True if lo is None else all(len(x) >= lo for x in nn)
    w2 = True if hi is None else all(len(x) <= hi for x in nn)
    return g1 == w1 and g2 == w2


def k1_allowed(vals: List[Optional[str]], allowed: Optional[List[str]], missing: bool) -> bool:
    """
    pre: len(vals) <= P['rows'] and all(v is None or len(v) <= 1 for v in vals)
    pre: allowed is None or (len(allowed) <= 2 and all(len(a) <= 1 for a in allowed))
    post: __return__
    """
    with symdf.patched(pc):
        v = _verifier({} if missing else {'c': symdf.str_series(vals)})
        got = bool(v.verify_allowed_values_constraint('c', AllowedValuesConstraint(allowed)))
    if missing:
        return got is False
    if allowed is None:
        return got is True
    want = all(any(x == a for a in allowed) for x in _nn(vals))
    return got == want


REX_MENU = [['^a+$'], ['^a$', '^b.$'], [], ['^$'],
            # each expression is a pattern of its own: a numbered back-reference means the group of the expression it is
            # written in, whatever precedes it in the list (both orders), and an inline flag stays in its expression
            ['^(a)-$', r'^(.)\1$'], [r'^(.)\1$', '^(a)b$'], ['^(?i:B)-$', '^b+$']]


def _ref_rex(k, s):
    if k == 0:
        return len(s) >= 1 and all(c == 'a' for c in s)
    if k == 1:
        return s == 'a' or (len(s) == 2 and s[0] == 'b')
    if k == 2:
        return False
    if k == 3:
        return s == ''
    dbl = len(s) == 2 and s[0] == s[1] and s[0] != '\n'
    if k == 4:
        return s == 'a-' or dbl
    if k == 5:
        return dbl or s == 'ab'
    return s in ('B-', 'b-') or (len(s) >= 1 and all(c == 'b' for c in s))


def k1_rex(vals: List[Optional[str]], k: int, null_value: bool, missing: bool, as_int_col: bool) -> bool:
    """
    pre: len(vals) <= P['rows'] and all(v is None or len(v) <= 2 for v in vals)
    pre: 0 <= k < 4
    post: __return__
    """
    with symdf.patched(pc):
        if missing:
            cols = {}
        elif as_int_col:
            cols = {'c': symdf.int_series([None if v is None else len(v) for v in vals])}
        else:
            cols = {'c': symdf.str_series(vals)}
        v = _verifier(cols)
        c = RexConstraint(None if null_value else list(REX_MENU[k]))    # as initialize_from_dict builds it
        got = bool(v.verify_rex_constraint('c', c))
    if missing:
        return got is False
    if null_value:
        return got is True          # a null-valued constraint is always satisfied, whatever the column
    if as_int_col:
        return got is False
    want = all(_ref_rex(k, x) for x in _nn(vals))
    return got == want


GROUP_ALPHA = 'abB-'


def k1_rex_groups(lens: List[int], chars: List[int]) -> bool:
    """
    pre: len(lens) <= 2 and all(-1 <= n <= 2 for n in lens) and len(chars) == 2 * len(lens)
    pre: all(0 <= c < len(GROUP_ALPHA) for c in chars)
    post: __return__
    """
    # CrossHair does not model back-references: the values are built from symbolic indexes into a 4-letter alphabet with a
    # branch per character, so that every path works on concrete strings (length -1 = null)
    k = P['k']
    vals = []
    for r, n in enumerate(lens):
        if n == -1:
            vals.append(None)
            continue
        t = ''
        for j in range(2):
            if j < n:
                for q in range(len(GROUP_ALPHA)):
                    if chars[2 * r + j] == q:
                        t += GROUP_ALPHA[q]
                        break
        vals.append(t)
    with symdf.patched(pc):
        v = _verifier({'c': symdf.str_series(vals)})
        got = bool(v.verify_rex_constraint('c', RexConstraint(list(REX_MENU[k]))))
    return got == all(_ref_rex(k, x) for x in _nn(vals))


def k1_type(vals: List[Optional[int]], t1: int, t2: int, strict: bool, null_value: bool,
            missing: bool) -> bool:
    """
    pre: len(vals) <= P['rows'] and 0 <= t1 < 5 and 0 <= t2 < 5
    post: __return__
    """
    kind = P['kind']
    allowed = [i == t1 or i == t2 for i in range(5)]
    # column kinds: 0 int (float64 when nulls), 1 bool (object when nulls), 2 string, 3 real with fractions
    if kind == 0:
        ser = symdf.int_series(vals)
        actual = 'real' if any(v is None for v in vals) else 'int'
    elif kind == 1:
        ser = symdf.bool_series([None if v is None else (v > 0) for v in vals])
        # an object column holding only nulls cannot be told from a string column
        actual = 'string' if (len(vals) > 0 and all(v is None for v in vals)) else 'bool'
    elif kind == 2:
        ser = symdf.str_series([None if v is None else ('x' if v > 0 else '') for v in vals])
        actual = 'string'
    else:
        ser = symdf.float_series([None if v is None else (0.5 if v > 0 else -1.5) for v in vals])
        actual = 'real'
    types = [t for t, a in zip(TYPES, allowed) if a]
    value = None if null_value else (types[0] if len(types) == 1 else types)
    with symdf.patched(pc):
        v = _verifier({} if missing else {'c': ser}, type_checking='strict' if strict else 'sloppy')
        got = bool(v.verify_tdda_type_constraint('c', TypeConstraint(value)))
    if missing:
        return got is False
    if null_value:
        return got is True
    if actual in types:
        return got is True
    if strict:
        return got is False
    # sloppy: promotions pandas performs on its own are forgiven
    nn = _nn(vals)
    if actual == 'real' and ('int' in types or 'bool' in types):
        return got == (kind == 0 or len(nn) == 0)       # whole-numbered reals only
    if actual == 'string' and 'bool' in types:
        return got == (len(nn) == 0)                    # an object column all of whose values are booleans
    return got is False


# ---- K3: aggregation ---------------------------------------------------------------------------------------
KINDS = ['type', 'min', 'max', 'sign', 'max_nulls', 'frobnicate']


class _C:
    def __init__(self, kind, value=1):
        self.kind = kind
        self.value = value


class _FC:
    """a field's constraints: iterable of constraint objects (what base.verify iterates over)"""
    def __init__(self, cs):
        self.cs = cs

    def __iter__(self):
        return iter(self.cs)


class _DC:
    def __init__(self, fields):
        self.fields = fields


def k3_aggregate(present: List[List[bool]], verdict: List[List[bool]], extra_null: bool, in_data: List[bool]) -> bool:
    """
    pre: 1 <= len(present) <= P['nf'] and len(verdict) == len(present) and len(in_data) == len(present)
    pre: all(len(p) == len(KINDS) for p in present) and all(len(p) == len(KINDS) for p in verdict)
    pre: all(d or not any(v) for d, v in zip(in_data, verdict))
    pre: not extra_null or all(in_data)
    post: __return__
    """
    # in_data: whether the data has the field at all; every verifier answers False for a field it lacks (K1), so
    # the verdict table is all-False there, and those failures count like any other
    names = ['f%d' % i for i in range(len(present))]

    def run(with_extra):
        fields = TDDAObject()
        for n, p in zip(names, present):
            cs = [_C(k) for k, on in zip(KINDS, p) if on]
            if with_extra:
                cs.append(_C('rex', None))
            fields[n] = _FC(cs)
        table = {n: dict(zip(KINDS, v)) for n, v in zip(names, verdict)}
        verifiers = {}
        for k in KINDS[:-1]:
            verifiers[k] = (lambda kk: (lambda name, c, detect: table[name][kk]))(k)
        verifiers['rex'] = lambda name, c, detect: True         # a null-valued constraint is satisfied
        return base.verify(_DC(fields), [n for n, d in reversed(list(zip(names, in_data))) if d], verifiers)
    r = run(False)
    tp = tf = 0
    for n, p, v in zip(names, present, verdict):
        fr = r.fields[n]
        np_ = nf = 0
        for k, on, ok in zip(KINDS, p, v):
            if not on:
                if k in fr:
                    return False
                continue
            if k == 'frobnicate':
                if fr[k] is not None:
                    return False
                continue
            if bool(fr[k]) != ok:
                return False
            np_ += 1 if ok else 0
            nf += 0 if ok else 1
        if fr.passes != np_ or fr.failures != nf:
            return False
        tp += np_
        tf += nf
    if r.passes != tp or r.failures != tf:
        return False
    if extra_null:
        r2 = run(True)
        if r2.failures != r.failures or r2.passes != r.passes + len(names):
            return False
        for n in names:
            for k in r.fields[n]:
                if r2.fields[n][k] != r.fields[n][k]:
                    return False
    return True


# ---- K4: report ------------------------------------------------------------------------------------------------
def k4_report(f1: List[bool], f2: List[bool], mode: int, ascii_: bool) -> bool:
    """
    pre: len(f1) <= 3 and len(f2) <= 3 and 0 <= mode < 2
    post: __return__
    """
    ver = Verification(None, report=['all', 'fields'][mode], ascii=ascii_)
    kinds = ['type', 'min', 'max']
    total_p = total_f = 0
    for name, flags in (('alpha', f1), ('beta', f2)):
        fr = TDDAObject()
        for k, ok in zip(kinds, flags):
            fr[k] = ok
        fr.passes = sum(1 for x in flags if x)
        fr.failures = sum(1 for x in flags if not x)
        total_p += fr.passes
        total_f += fr.failures
        ver.fields[name] = fr
    ver.passes, ver.failures = total_p, total_f
    text = str(ver)
    if ('Constraints passing: %d' % total_p) not in text or ('Constraints failing: %d' % total_f) not in text:
        return False
    for name, flags in (('alpha', f1), ('beta', f2)):
        failing = any(not x for x in flags)
        listed = ('\n%s: ' % name) in ('\n' + text.replace('\n\n', '\n'))
        if mode == 1:
            if listed != failing:
                return False
        elif not listed:
            return False
    return True


def _obs():
    obs = []
    Q, T = 'quick', 'thorough'
    for rows, tier, to in ((2, Q, 300), (3, T, 2400)):
        b = 'one column of <=%d rows, values ANY int or null' % rows
        obs.append(Ob('K1', 'k1_min_max', 'min/max: satisfied iff every non-null value is >= / <= the bound (strictly '
                      'for open precision); null bound => satisfied; absent column => failed',
                      b + '; bound any int or null; precision 4-way; min or max; epsilon 0', param={'rows': rows},
                      timeout=to, tier=tier, stubs=['symdf (pandas double)']))
        obs.append(Ob('K1', 'k1_date_min_max', 'min/max on a date column with a datetime bound: open precision is '
                      'strict, closed is not, fuzzy/unspecified is read as closed (dates are never fuzzy)',
                      'date column of <=%d rows, day offsets 0..3 or null; bound offset 0..3 (a datetime, as get_date yields); 4 '
                      'precisions; min and max; epsilon 0.01' % min(rows, 2), param={'rows': min(rows, 2)},
                      timeout=to, tier=tier, stubs=['symdf']))
        obs.append(Ob('K1', 'k1_precision_dispatch', 'with a non-zero epsilon: closed and open precision never consult '
                      'the fuzzy comparison and are decided by >= / > (<= / <) on the column extreme; fuzzy (or '
                      'unspecified) precision is decided by the fuzzy comparison of (extreme, bound, epsilon)',
                      b + '; bound any int; precision 4-way; min or max; epsilon 0.25; the fuzzy helper answers '
                      'arbitrarily', param={'rows': rows}, timeout=to, tier=tier,
                      stubs=['symdf', 'fuzzy_greater_than/fuzzy_less_than -> recorder with arbitrary answer '
                             '(their arithmetic is K2)']))
        obs.append(Ob('K1', 'k1_sign', 'sign: satisfied iff all non-null values are in the sign class ("null": no '
                      'values at all); null value => satisfied; absent column => failed', b + '; 6 sign classes',
                      param={'rows': rows}, timeout=to, tier=tier, stubs=['symdf']))
        obs.append(Ob('K1', 'k1_nulls_dups', 'max_nulls: null count <= value; no_duplicates: non-null values pairwise '
                      'distinct (only when the value is true); null value => satisfied; absent column => failed',
                      b + '; max_nulls any int >= 0 or null; no_duplicates null/true/false', param={'rows': rows},
                      timeout=to, tier=tier, stubs=['symdf']))
        obs.append(Ob('K1', 'k1_lengths', 'min_length/max_length: every non-null string has length >= / <= the '
                      'value; a non-string column fails; null value => satisfied; absent column => failed',
                      'one column of <=%d rows of symbolic strings len<=3 or null (or an int column); bounds any int '
                      'or null' % rows, param={'rows': rows}, timeout=to, tier=tier, stubs=['symdf']))
        obs.append(Ob('K1', 'k1_allowed', 'allowed_values: every non-null value is in the list; null list => '
                      'satisfied; absent column => failed', 'one column of <=%d rows of symbolic strings len<=1 or '
                      'null; list of <=2 symbolic strings or null' % rows, param={'rows': rows}, timeout=to,
                      tier=tier, stubs=['symdf']))
        obs.append(Ob('K1', 'k1_rex', 'rex: every non-null value is matched (re.match, anchored expressions) by at '
                      'least one expression; a non-string column fails; absent column => failed',
                      'one column of <=%d rows of symbolic strings len<=2 or null; %d concrete expression lists '
                      '(incl. the empty list)' % (rows, 4), param={'rows': rows}, timeout=to, tier=tier,
                      stubs=['symdf']))
        if tier == 'quick':
            for k in (4, 5, 6):
                obs.append(Ob('K1', 'k1_rex_groups', 'rex: each expression of the list is a pattern of its own - a numbered '
                              'back-reference means the group of the expression it is written in, an inline flag stays '
                              'inside its expression', 'one column of <=2 rows of strings len<=2 over "abB-" or null; '
                              'expression list %r' % (REX_MENU[k],), param={'k': k}, timeout=300, stubs=['symdf']))
        for kind, kname in enumerate(['int (float64 when nulls)', 'bool (object when nulls)', 'string',
                                      'fractional real']):
            obs.append(Ob('K1', 'k1_type', 'type: strict => the column type is in the allowed list; sloppy '
                          'additionally forgives whole-numbered real columns for int/bool and all-boolean object '
                          'columns for bool; null value => satisfied; absent column => failed',
                          '%s column of <=%d rows with nulls anywhere; allowed types = any 1 or 2 of the 5 types; '
                          'strict/sloppy, null-valued, absent column symbolic' % (kname, rows),
                          param={'rows': rows, 'kind': kind}, timeout=to, tier=tier, stubs=['symdf']))
    for nf, tier, to in ((1, Q, 300), (2, T, 2400)):
        obs.append(Ob('K3', 'k3_aggregate', 'base.verify: per-field and overall passes/failures equal the counts of '
                      'true/false verdicts, unknown kinds give None and are not counted, fields of absent kinds are '
                      'absent, and adding a null-valued constraint changes nothing else',
                      '%d field(s); presence and verdict of %d kinds symbolic (one unknown kind)' % (nf, len(KINDS)),
                      param={'nf': nf}, timeout=to, tier=tier,
                      stubs=['verifier callables return the symbolic verdicts']))
    obs.append(Ob('K4', 'k4_report', 'str(Verification): the two summary integers are the totals; in "fields" mode '
                  'exactly the fields with a failure are listed, in "all" mode every field',
                  '2 fields x <=3 symbolic verdicts; report mode, ascii symbolic', timeout=300))
    return obs


PREFLIGHT = ['vp.doubles.conformance:symdf_conformance']
OBLIGATIONS = _obs()
ASSUMPTIONS = ['symdf contract (vp/doubles/symdf.py), checked against real pandas by the conformance pass',
               'epsilon = 0 in K1; fuzzy arithmetic is K2 (direct z3)']
OUTSIDE = ['to_frame() (constructs a real DataFrame)', 'real pandas dtype zoo beyond int64/float64/bool/object']


# ---- K2: fuzzy arithmetic, by direct translation of the current source to z3 -------------------------------------
def _z3_value(term, env):
    import z3
    sub = [(k, v) for k, v in env]
    return z3.simplify(z3.substitute(term, *sub))


def _spec_gt(a, b, eps, absb):
    """documented: a >~ b  iff  a >= b, or a >= b - |b|.eps"""
    import z3
    return z3.Or(a >= b, a >= b - absb * eps)


def _spec_lt(a, b, eps, absb):
    import z3
    return z3.Or(a <= b, a <= b + absb * eps)


def replay_fuzzy(fname, a, b, eps):
    """concrete replay with exact rationals: real function vs documented formula (True = agrees)"""
    from fractions import Fraction
    a, b, eps = Fraction(a), Fraction(b), Fraction(eps)
    fn = getattr(base, fname, None) or getattr(pc, fname)
    got = bool(fn(a, b, eps))
    if 'gt' in fname or 'greater' in fname:
        want = a >= b or a >= b - abs(b) * eps
    else:
        want = a <= b or a <= b + abs(b) * eps
    return got == want


def replay_fuzzy_fp(what, a, b, eps):
    """concrete replay in IEEE doubles (True = the lemma holds for these values)"""
    a, b, eps = float(a), float(b), float(eps)
    if what == 'eps0_gt':
        return bool(base.fuzzy_greater_than(a, b, 0.0)) == (a >= b)
    if what == 'eps0_lt':
        return bool(base.fuzzy_less_than(a, b, 0.0)) == (a <= b)
    if what == 'zero_gt':
        return bool(base.fuzzy_greater_than(a, 0.0, eps)) == (a >= 0.0)
    if what == 'zero_lt':
        return bool(base.fuzzy_less_than(a, 0.0, eps)) == (a <= 0.0)
    if what == 'down':
        return base.fuzz_down(b, eps) <= b
    if what == 'up':
        return base.fuzz_up(b, eps) >= b
    raise ValueError(what)


def k2_fuzzy_real():
    import random
    from fractions import Fraction
    import z3
    from vp.engine_z3 import PySym, Queries, Untranslatable
    import os
    out = {'queries': 0, 'detail': []}
    try:
        S = PySym([base, pc], 'real')
        a, b, eps = z3.Reals('a b eps')
        absb = z3.If(b >= 0, b, -b)
        terms = {
            'fuzzy_greater_than': (S.call('fuzzy_greater_than', [a, b, eps]), _spec_gt(a, b, eps, absb)),
            'fuzzy_less_than': (S.call('fuzzy_less_than', [a, b, eps]), _spec_lt(a, b, eps, absb)),
            'df_fuzzy_gt': (S.call('df_fuzzy_gt', [a, b, eps]), _spec_gt(a, b, eps, absb)),
            'df_fuzzy_lt': (S.call('df_fuzzy_lt', [a, b, eps]), _spec_lt(a, b, eps, absb)),
        }
    except Untranslatable as e:
        return {'status': 'inconclusive', 'message': 'source no longer translatable: %s' % e}
    # translator validation: seeded triples through the real functions and through the encoding
    rnd = random.Random(int(os.environ.get('VERIF_SEED', '0')))
    for name, (impl, spec) in terms.items():
        fn = getattr(base, name, None) or getattr(pc, name)
        for _ in range(50):
            va = Fraction(rnd.randint(-40, 40), rnd.choice([1, 2, 3, 7]))
            vb = rnd.choice([Fraction(0), va, va * Fraction(99, 100), Fraction(rnd.randint(-40, 40), rnd.choice([1, 3]))])
            ve = rnd.choice([Fraction(0), Fraction(1, 100), Fraction(1, 2), Fraction(rnd.randint(0, 99), 100)])
            enc = _z3_value(impl, [(a, z3.RealVal(str(va))), (b, z3.RealVal(str(vb))), (eps, z3.RealVal(str(ve)))])
            if z3.is_true(enc) != bool(fn(va, vb, ve)):
                return {'status': 'harness_error', 'message': 'encoding of %s disagrees with the real function at '
                        '%s %s %s' % (name, va, vb, ve)}
    q = Queries()
    r0, _ = q.check('assumptions satisfiable', eps >= 0, eps < 1, expect='sat')
    out['reachable'] = (r0 == 'sat')
    status = 'discharged'
    for name, (impl, spec) in terms.items():
        r, m = q.check('%s == documented formula, all reals, 0 <= eps < 1' % name, eps >= 0, eps < 1, impl != spec)
        if r == 'sat':
            vals = [m.eval(x, model_completion=True) for x in (a, b, eps)]
            fr = ["'%s'" % v.as_fraction() for v in vals]
            out.update(status='counterexample', replay_fn='replay_fuzzy',
                       call="replay_fuzzy(%r, %s, %s, %s)" % (name, fr[0], fr[1], fr[2]))
            status = 'counterexample'
            break
        if r != 'unsat':
            status = 'inconclusive'
            out['message'] = 'solver returned %s for %s' % (r, name)
    out['status'] = out.get('status', status) if status != 'discharged' else 'discharged'
    if status == 'inconclusive':
        out['status'] = 'inconclusive'
    out['queries'] = len(q.log)
    out['paths'] = len(q.log)
    out['cpu_s'] = round(q.total, 3)
    out['detail'] = q.log
    if q.disagreements:
        out['status'] = 'harness_error'
        out['message'] = 'z3 and cvc5 disagree on: %s' % q.disagreements
    out['functions'] = sorted(S.entered)
    return out


def k2_fuzzy_fp():
    import z3
    from vp.engine_z3 import PySym, Queries, Untranslatable
    eps_values = P.get('eps', [0.01, 0.5])
    cap = P.get('cap_s', 60)
    out = {}
    try:
        F = PySym([base, pc], 'fp')
        fa, fb = z3.FP('a', z3.Float64()), z3.FP('b', z3.Float64())
        zero = z3.FPVal(0.0, z3.Float64())
        gt0 = F.call('fuzzy_greater_than', [fa, fb, zero])
        lt0 = F.call('fuzzy_less_than', [fa, fb, zero])
    except Untranslatable as e:
        return {'status': 'inconclusive', 'message': 'source no longer translatable: %s' % e}

    def fin(x):
        return z3.Not(z3.Or(z3.fpIsNaN(x), z3.fpIsInf(x)))
    q = Queries(timeout_ms=int(cap * 1000))
    r0, _ = q.check('assumptions satisfiable', fin(fa), fin(fb), expect='sat')
    out['reachable'] = (r0 == 'sat')
    obligations = [('eps0_gt', 'eps = 0: fuzzy_greater_than(a,b,0) == (a >= b), all finite doubles',
                    [fin(fa), fin(fb), gt0 != z3.fpGEQ(fa, fb)], 0.0),
                   ('eps0_lt', 'eps = 0: fuzzy_less_than(a,b,0) == (a <= b), all finite doubles',
                    [fin(fa), fin(fb), lt0 != z3.fpLEQ(fa, fb)], 0.0)]
    for e in eps_values:
        ev = z3.FPVal(e, z3.Float64())
        obligations.append(('zero_gt', 'bound 0 is never fuzzy (min), eps=%s' % e,
                            [fin(fa), F.call('fuzzy_greater_than', [fa, zero, ev]) != z3.fpGEQ(fa, zero)], e))
        obligations.append(('zero_lt', 'bound 0 is never fuzzy (max), eps=%s' % e,
                            [fin(fa), F.call('fuzzy_less_than', [fa, zero, ev]) != z3.fpLEQ(fa, zero)], e))
        obligations.append(('down', 'fuzz_down(b) <= b, all finite doubles, eps=%s' % e,
                            [fin(fb), z3.Not(z3.fpLEQ(F.call('fuzz_down', [fb, ev]), fb))], e))
        obligations.append(('up', 'fuzz_up(b) >= b, all finite doubles, eps=%s' % e,
                            [fin(fb), z3.Not(z3.fpGEQ(F.call('fuzz_up', [fb, ev]), fb))], e))
    status = 'discharged'
    for what, name, cons, e in obligations:
        r, m = q.check(name, *cons)
        if r == 'sat':
            def fv(x):
                return _fp_to_float(m.eval(x, model_completion=True))
            out.update(status='counterexample', replay_fn='replay_fuzzy_fp',
                       call='replay_fuzzy_fp(%r, %s, %s, %r)' % (what, fv(fa), fv(fb), e))
            status = 'counterexample'
            break
        if r != 'unsat':
            status = 'inconclusive'
            out['message'] = 'solver returned %s for: %s' % (r, name)
    out['status'] = status
    out['queries'] = len(q.log)
    out['paths'] = len(q.log)
    out['cpu_s'] = round(q.total, 3)
    out['detail'] = q.log
    if q.disagreements:
        out['status'] = 'harness_error'
        out['message'] = 'z3 and cvc5 disagree on: %s' % q.disagreements
    out['functions'] = sorted(F.entered)
    return out


def _fp_to_float(v):
    import struct
    import z3
    if z3.is_fp_value(v):
        if v.isNaN():
            return 'float("nan")'
        if v.isInf():
            return 'float("-inf")' if v.isNegative() else 'float("inf")'
        sign = 1 if v.sign() else 0
        bits = (sign << 63) | (v.exponent_as_long(biased=True) << 52) | v.significand_as_long()
        return repr(struct.unpack('>d', struct.pack('>Q', bits))[0])
    return '0.0'


OBLIGATIONS += [
    Ob('K2', 'k2_fuzzy_real', 'fuzzy_greater_than / fuzzy_less_than / df_fuzzy_gt / df_fuzzy_lt equal the documented '
       'formula (a >= b or a >= b - |b|.eps, dually) for ALL real a, b and 0 <= eps < 1',
       'exact real arithmetic (floats abstracted as reals; the FP lemmas below justify it at the boundaries)',
       engine='z3', timeout=120, twin=False),
    Ob('K2', 'k2_fuzzy_fp', 'IEEE-754 double: eps = 0 is identical to the exact comparison; a bound of 0 is never '
       'fuzzy; fuzz_down(b) <= b <= fuzz_up(b)', 'all finite doubles; eps in {0, 0.5}', engine='z3',
       param={'eps': [0.5], 'cap_s': 60}, timeout=600, twin=False),
    Ob('K2', 'k2_fuzzy_fp', 'IEEE-754 double: eps = 0 is identical to the exact comparison; a bound of 0 is never '
       'fuzzy; fuzz_down(b) <= b <= fuzz_up(b)', 'all finite doubles; eps in {0, 0.01, 0.5}', engine='z3',
       param={'eps': [0.01, 0.5], 'cap_s': 300}, timeout=3000, twin=False, tier='thorough'),
]
