"""C09 - .tdda files round-trip: same text, same verdicts, unknown keys ignored."""
import json
from collections import OrderedDict
from typing import List, Optional

from vp.ob import Ob
from vp import rt

from tdda.constraints import base
from tdda.constraints.base import (DatasetConstraints, strip_lines, to_preferred_order, get_date,
                                   STANDARD_FIELD_CONSTRAINTS, native_definite)

P = rt.param({})
TYPES = [None, 'bool', 'int', 'real', 'date', 'string']
PRECS = [None, 'closed', 'open', 'fuzzy']
SIGNS = [None, 'positive', 'non-negative', 'zero', 'non-positive', 'negative', 'null']
DATES = [None, '2001-02-03', '2001-02-03 04:05:06', '1999/1/2', '2001-02-03T04:05:06', '2001-02-03 04:05:06.000700']
ABSENT = -1


def _load(d):
    D = DatasetConstraints()
    saved = base.warn
    base.warn = lambda s: None
    try:
        D.initialize_from_dict(native_definite(d))
    finally:
        base.warn = saved
    return D


def _items(o):
    """order-sensitive structural form (dicts -> item lists)"""
    if isinstance(o, dict):
        return [(k, _items(v)) for k, v in o.items()]
    if isinstance(o, (list, tuple)):
        return [_items(v) for v in o]
    return o


def _roundtrip_ok(fields, expected=None, text=False):
    """load dict -> to_dict (d1) -> load -> to_dict (d2): d1 == d2, key order included; optionally d1's field
    part equals `expected`; with text=True the JSON text is a fixpoint too, has no trailing whitespace and
    ends with a newline."""
    d = {'fields': fields}
    D1 = _load(d)
    d1 = D1.to_dict()
    D2 = _load(d1)
    d2 = D2.to_dict()
    if _items(d1) != _items(d2):
        return False
    if expected is not None and _items(d1['fields']) != _items(expected):
        return False
    if text:
        t1 = D1.to_json()
        if _load(json.loads(t1, object_pairs_hook=OrderedDict)).to_json() != t1:
            return False
        for line in t1.split(NL):
            if line != line.rstrip():
                return False
        if not t1.endswith(NL):
            return False
    return True


def _expected(c):
    """documented behaviour: known kinds kept (standard order), unknown kinds and #-keys dropped"""
    out = OrderedDict()
    for k in STANDARD_FIELD_CONSTRAINTS:
        if k in c:
            out[k] = c[k]
    return out


# ---- K1a: type / min / max with precision ------------------------------------------------------
def k1_bounds(t: int, has_min: bool, vmin: Optional[int], pmin: int, has_max: bool, vmax: Optional[int],
              pmax: int, unk: bool, hashkey: bool) -> bool:
    """
    pre: ABSENT <= t < len(TYPES) and TYPES[t] != 'date'
    pre: 0 <= pmin < 4 and 0 <= pmax < 4
    pre: unk == P['unk'] and hashkey == P['hash']
    post: __return__
    """
    c = OrderedDict()
    if hashkey:
        c['#comment'] = 'x'
    if has_max:
        c['max'] = vmax if PRECS[pmax] is None else {'value': vmax, 'precision': PRECS[pmax]}
    if unk:
        c['frobnicate'] = 7
    if t != ABSENT:
        c['type'] = TYPES[t]
    if has_min:
        c['min'] = vmin if PRECS[pmin] is None else {'value': vmin, 'precision': PRECS[pmin]}
    exp = _expected(c)
    fields = {'f': c}
    expected = {'f': exp} if exp else {}
    return _roundtrip_ok(fields, expected)


# ---- K1b: date-valued bounds ----------------------------------------------------------------------
def k1_dates(dmin: int, dmax: int, pmin: int, type_pos: int) -> bool:
    """
    pre: ABSENT <= dmin < len(DATES) and ABSENT <= dmax < len(DATES)
    pre: 0 <= pmin < 4 and 0 <= type_pos < 3
    post: __return__
    """
    # the order of keys in a hand-written file is arbitrary: type first, in the middle or last
    c = OrderedDict()
    if type_pos == 0:
        c['type'] = 'date'
    if dmin != ABSENT:
        c['min'] = DATES[dmin] if PRECS[pmin] is None else {'value': DATES[dmin], 'precision': PRECS[pmin]}
    if type_pos == 1:
        c['type'] = 'date'
    if dmax != ABSENT:
        c['max'] = DATES[dmax]
    if type_pos == 2:
        c['type'] = 'date'
    ok = _roundtrip_ok({'when': c}, None, text=True)
    # and the loaded bounds are datetimes whatever the key order (so that they compare with the data)
    D = _load({'fields': {'when': c}})
    for k, i in (('min', dmin), ('max', dmax)):
        if i != ABSENT and DATES[i] is not None:
            import datetime
            if not isinstance(D['when'][k].value, datetime.datetime):
                return False
    return ok


def lift_dates(dmin, dmax, pmin, type_pos):
    return k1_dates(dmin, dmax, pmin, type_pos)


# ---- K1c: the other kinds ---------------------------------------------------------------------------
def k1_others(sign: int, mn: int, nodup: int, minlen: int, maxlen: int, nvals: int, v1: str, v2: str,
              nrex: int, r1: str) -> bool:
    """
    pre: ABSENT <= sign < len(SIGNS)
    pre: -2 <= mn and -2 <= nodup <= 1 and -2 <= minlen and -2 <= maxlen
    pre: -1 <= nvals <= 2 and -1 <= nrex <= 1
    pre: len(v1) <= 2 and len(v2) <= 2 and len(r1) <= 2
    pre: all(c in ALPHA for c in v1 + v2 + r1)
    pre: (nvals == -1 and nrex == -1 and v1 == '' and v2 == '' and r1 == '') if P['group'] == 'scalars' else (sign == ABSENT and mn == -2 and nodup == -2 and minlen == -2 and maxlen == -2)
    post: __return__
    """
    # convention for small ints: -2 = absent, -1 = present with null value
    c = OrderedDict()
    if nrex >= 0:
        c['rex'] = [r1][:nrex]
    if nvals >= 0:
        c['allowed_values'] = [v1, v2][:nvals]
    if sign != ABSENT:
        c['sign'] = SIGNS[sign]
    for key, v in (('max_nulls', mn), ('min_length', minlen), ('max_length', maxlen)):
        if v > -2:
            c[key] = None if v == -1 else v
    if nodup > -2:
        c['no_duplicates'] = None if nodup == -1 else bool(nodup)
    c['type'] = 'string'
    return _roundtrip_ok({'f': c, 'g': OrderedDict((('type', 'int'),))}, {'f': _expected(c), 'g': {'type': 'int'}})


ALPHA = 'a"\\é  '


TEXT_MENU = [
    {'type': 'int', 'min': 1, 'max': {'value': 9, 'precision': 'closed'}, 'sign': 'positive', 'max_nulls': 0},
    {'type': 'string', 'min_length': 0, 'max_length': 3, 'allowed_values': ['a"b', 'é\\', ''], 'rex': ['^a\\"$']},
    {'type': 'date', 'min': '2001-02-03', 'max': '2001-02-03 04:05:06.000700', 'max_nulls': None},
    {'type': 'date', 'min': {'value': '2001-02-03 04:05:06', 'precision': 'closed'},
     'max': {'value': '2002-01-01', 'precision': 'open'}},
    {'type': ['int', 'real'], 'min': {'value': -1.5, 'precision': 'fuzzy'}, 'no_duplicates': True, '#c': 1},
    {'type': 'real', 'frob': [1], 'sign': None},
]


def k1_text(i: int, j: int, name: int) -> bool:
    """
    pre: 0 <= i < len(TEXT_MENU) and 0 <= j < len(TEXT_MENU) and 0 <= name < 3
    post: __return__
    """
    fields = OrderedDict()
    fields[['f', 'naïve name', 'a"b'][name]] = OrderedDict(TEXT_MENU[i])
    fields['g'] = OrderedDict(TEXT_MENU[j])
    return _roundtrip_ok(fields, None, text=True)


# ---- K2 (CrossHair part): get_date on values that are not date text ----------------------------------
def k2_get_date_total(kind: int) -> bool:
    """
    pre: 0 <= kind < 4
    post: __return__
    """
    v = [None, 'not a date', '', '2001-13-45'][kind]
    c = OrderedDict((('type', 'date'), ('min', v)))
    D = _load({'fields': {'d': c}})
    out = D.to_dict()['fields']['d']
    return out['min'] == v and _roundtrip_ok({'d': c})


# ---- K3: text form --------------------------------------------------------------------------------------
def k3_strip_lines(s: str) -> bool:
    """
    pre: len(s) <= P['n']
    pre: all(c == NL or c >= ' ' for c in s)
    post: __return__
    """
    # call-site invariant (to_json): s is json.dumps(..., ensure_ascii=False) output: the only control
    # character it can hold is the newline json.dumps itself emits between items
    out = strip_lines(s)
    ref = NL.join(line.rstrip() for line in s.split(NL))
    return out == ref


NL = chr(10)
NSTD = len(STANDARD_FIELD_CONSTRAINTS)


def lift_strip_lines(s):
    """public API: a value holding the offending text must survive to_json -> json.loads"""
    ok = True
    for val in (s, 'a' + s + 'b'):
        D = _load({'fields': {'f': {'type': 'string', 'allowed_values': [val]}}})
        text = D.to_json()
        try:
            back = json.loads(text)
        except ValueError:
            return False
        ok = ok and back['fields']['f']['allowed_values'] == [val]
    return ok


def k3_preferred_order(i: int, j: int, k: int, extra1: bool, extra2: bool) -> bool:
    """
    pre: 0 <= i <= NSTD and 0 <= j <= NSTD and 0 <= k <= NSTD
    pre: P['n'] == 3 or k == NSTD
    pre: (i == NSTD or (i != j and i != k)) and (j == NSTD or j != k)
    post: __return__
    """
    keys = [STANDARD_FIELD_CONSTRAINTS[x] for x in (i, j, k) if x < NSTD]
    if extra1:
        keys.insert(0, 'zeta')
    if extra2:
        keys.append('alpha')
    out = to_preferred_order(keys, STANDARD_FIELD_CONSTRAINTS)
    std = [k for k in STANDARD_FIELD_CONSTRAINTS if k in keys]
    rest = sorted(k for k in keys if k not in STANDARD_FIELD_CONSTRAINTS)
    return out == std + rest


def _obs():
    obs = []
    for unk in (False, True):
        for hk in (False, True):
            obs.append(Ob('K1', 'k1_bounds', 'dict -> object -> dict is a fixpoint after one load (key order '
                          'included) and equals the input minus unknown kinds and #-keys in standard order',
                          '1 field; type over {absent,null,bool,int,real,string}; min/max absent / null / ANY int '
                          'with precision {plain,closed,open,fuzzy}; unknown kind %s, #-key %s' % (unk, hk),
                          param={'unk': unk, 'hash': hk}, timeout=300))
    obs.append(Ob('K1', 'k1_dates', 'date-typed bounds: dict -> object -> dict is a fixpoint after one load, for '
                  'null and every accepted spelling of the bound',
                  'min/max over {absent, null, %d date/datetime spellings}; precision 4-way; the type key first, between or after the bounds' % (len(DATES) - 1),
                  timeout=300))
    obs.append(Ob('K1', 'k1_others', 'sign / max_nulls / no_duplicates / lengths round-trip exactly (fixpoint, '
                  'standard order), null values included',
                  '2 fields; sign 8-way; max_nulls, min_length, max_length absent/null/any int >= 0; no_duplicates '
                  'absent/null/false/true', param={'group': 'scalars'}, timeout=400))
    obs.append(Ob('K1', 'k1_others', 'allowed_values / rex round-trip exactly (fixpoint, standard order)',
                  '2 fields; <=2 allowed values and <=1 rex as symbolic strings len<=2 over the alphabet %r' % ALPHA,
                  param={'group': 'lists'}, timeout=400))
    obs.append(Ob('K1', 'k1_text', 'text level: to_json -> json.loads -> load -> to_json is the identical text, no '
                  'line ends in whitespace, text ends with a newline',
                  '2 fields drawn (symbolic indexes) from %d concrete constraint dictionaries covering every kind, '
                  'precision dicts, dates, quotes/backslashes/unicode, null values, unknown and #-keys; 3 field '
                  'names incl. unicode and a quote' % len(TEXT_MENU), timeout=600))
    obs.append(Ob('K2', 'k2_get_date_total', 'a date field whose bound is null or not date text loads without error '
                  'and keeps the value', '4 concrete non-date values', timeout=60))
    obs.append(Ob('K3', 'k3_strip_lines', 'strip_lines changes nothing but trailing whitespace of newline-separated '
                  'lines, for any text json.dumps(ensure_ascii=False) can emit',
                  's: any string len<=3 without control characters other than newline', param={'n': 3},
                  timeout=300, lift='lift_strip_lines'))
    obs.append(Ob('K3', 'k3_strip_lines', 'strip_lines changes nothing but trailing whitespace of newline-separated '
                  'lines, for any text json.dumps(ensure_ascii=False) can emit',
                  's: any string len<=4 without control characters other than newline', param={'n': 4},
                  timeout=1800, tier='thorough', lift='lift_strip_lines'))
    obs.append(Ob('K3', 'k3_preferred_order', 'to_preferred_order is a permutation: standard kinds in standard '
                  'order first, the rest sorted', 'any <=2 distinct standard kinds in any input order (symbolic indexes) + 2 '
                  'optional unknown kinds', param={'n': 2}, timeout=300))
    obs.append(Ob('K3', 'k3_preferred_order', 'to_preferred_order is a permutation: standard kinds in standard '
                  'order first, the rest sorted', 'any <=3 distinct standard kinds in any input order + 2 optional '
                  'unknown kinds', param={'n': 3}, timeout=1200, tier='thorough'))
    return obs


OBLIGATIONS = _obs()
ASSUMPTIONS = ['json.dumps/json.loads are C code: CrossHair realises their inputs, so string-valued constraint values '
               'are drawn from a small alphabet']
OUTSIDE = ['file I/O and UTF-8 encoding on disk', 'field_groups (multi-field constraints)']
