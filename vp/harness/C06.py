"""C06 - detection flags exactly the violating records and agrees with verification."""
import datetime
from typing import List, Optional

from vp.ob import Ob
from vp import rt
from vp.doubles import symdf, fakefs
from vp.doubles.symdf import SymFrame, SymSeries

import tdda.constraints.pd.constraints as pc
from tdda.constraints import base
from tdda.constraints.base import (MinConstraint, MaxConstraint, SignConstraint, TypeConstraint, MaxNullsConstraint,
                                   NoDuplicatesConstraint, AllowedValuesConstraint, MinLengthConstraint,
                                   MaxLengthConstraint, RexConstraint, DatasetConstraints, FieldConstraints,
                                   TDDAObject)

P = rt.param({})
SIGNS = ['positive', 'non-negative', 'zero', 'non-positive', 'negative', 'null']
PRECS = ['closed', 'open', 'fuzzy']


def _flags(v, name):
    return list(v.out_df[name].vals) if name in list(v.out_df) else None


def _expect(vals, pred, null_flag=None):
    """row-wise meaning: null rows get null_flag (None = not flagged at all), others pred(x)"""
    out = [null_flag if x is None else bool(pred(x)) for x in vals]
    return out


def _same_flags(got, want):
    if got is None or len(got) != len(want):
        return False
    for g, w in zip(got, want):
        if w is None:
            if g is not None:
                return False
        elif g is None or bool(g) != w:
            return False
    return True


# ---- K1: per-kind record predicates ---------------------------------------------------------------------
def k1_min_max(vals: List[Optional[int]], bound: int, prec: int, is_max: bool) -> bool:
    """
    pre: 1 <= len(vals) <= P['rows'] and 0 <= prec < 3
    post: __return__
    """
    with symdf.patched(pc):
        v = pc.PandasConstraintVerifier(SymFrame({'c': symdf.int_series(vals)}), epsilon=0)
        C = MaxConstraint if is_max else MinConstraint
        f = v.verify_max_constraint if is_max else v.verify_min_constraint
        ok = bool(f('c', C(bound, precision=PRECS[prec]), True))
    name = 'c_max_ok' if is_max else 'c_min_ok'
    got = _flags(v, name)
    if is_max:
        pred = (lambda x: x < bound) if PRECS[prec] == 'open' else (lambda x: x <= bound)
    else:
        pred = (lambda x: x > bound) if PRECS[prec] == 'open' else (lambda x: x >= bound)
    want = _expect(vals, pred)
    if ok:
        return got is None and all(w is None or w for w in want)
    return _same_flags(got, want) and any(w is False for w in want)


EPOCH = datetime.datetime(2000, 1, 1)


def _day(d):
    return None if d is None else EPOCH + datetime.timedelta(days=d)


def k1_date_min_max(days: List[Optional[int]], bound: int, prec: int, is_max: bool) -> bool:
    """
    pre: 1 <= len(days) <= P['rows'] and 0 <= prec < 3 and 0 <= bound <= 3
    pre: all(d is None or 0 <= d <= 3 for d in days)
    post: __return__
    """
    # date bounds: open is strict, closed and fuzzy are not (dates are never fuzzy); the flags follow the verdict
    with symdf.patched(pc):
        v = pc.PandasConstraintVerifier(SymFrame({'c': symdf.date_series([_day(d) for d in days])}), epsilon=0.01)
        C = MaxConstraint if is_max else MinConstraint
        f = v.verify_max_constraint if is_max else v.verify_min_constraint
        ok = bool(f('c', C(_day(bound), precision=PRECS[prec]), True))
    got = _flags(v, 'c_max_ok' if is_max else 'c_min_ok')
    if is_max:
        pred = (lambda x: x < bound) if PRECS[prec] == 'open' else (lambda x: x <= bound)
    else:
        pred = (lambda x: x > bound) if PRECS[prec] == 'open' else (lambda x: x >= bound)
    want = _expect(days, pred)
    if ok:
        return got is None and all(w is None or w for w in want)
    return _same_flags(got, want) and any(w is False for w in want)


def k1_detect_dispatch(vals: List[Optional[int]], bound: int, prec: int, is_max: bool, fz: List[bool]) -> bool:
    """
    pre: 1 <= len(vals) <= P['rows'] and 0 <= prec < 3 and len(fz) == len(vals)
    post: __return__
    """
    # which per-record comparison decides, for each precision, with a non-zero epsilon: the fuzzy helpers are
    # replaced by recorders whose answers are ARBITRARY, so the flags may depend on them only for "fuzzy"
    calls = []

    def rec(a, b, eps):
        calls.append((b, eps))
        return SymSeries(list(fz), symdf.BOOL)
    saved = (pc.df_fuzzy_gt, pc.df_fuzzy_lt)
    pc.df_fuzzy_gt = rec
    pc.df_fuzzy_lt = rec
    try:
        with symdf.patched(pc):
            v = pc.PandasConstraintVerifier(SymFrame({'c': symdf.int_series(vals)}), epsilon=0.25)
            if is_max:
                v.detect_max_constraint('c', bound, PRECS[prec], 0.25)
            else:
                v.detect_min_constraint('c', bound, PRECS[prec], 0.25)
    finally:
        pc.df_fuzzy_gt, pc.df_fuzzy_lt = saved
    got = _flags(v, 'c_max_ok' if is_max else 'c_min_ok')
    p = PRECS[prec]
    if p == 'fuzzy':
        want = [None if x is None else bool(f) for x, f in zip(vals, fz)]
        return calls == [(bound, 0.25)] and _same_flags(got, want)
    if is_max:
        pred = (lambda x: x < bound) if p == 'open' else (lambda x: x <= bound)
    else:
        pred = (lambda x: x > bound) if p == 'open' else (lambda x: x >= bound)
    return calls == [] and _same_flags(got, _expect(vals, pred))


def k1_sign(vals: List[Optional[int]], s: int) -> bool:
    """
    pre: 1 <= len(vals) <= P['rows'] and 0 <= s < 6
    post: __return__
    """
    with symdf.patched(pc):
        v = pc.PandasConstraintVerifier(SymFrame({'c': symdf.int_series(vals)}))
        ok = bool(v.verify_sign_constraint('c', SignConstraint(SIGNS[s]), True))
    got = _flags(v, 'c_sign_ok')
    name = SIGNS[s]
    preds = {'positive': lambda x: x > 0, 'non-negative': lambda x: x >= 0, 'zero': lambda x: x == 0,
             'non-positive': lambda x: x <= 0, 'negative': lambda x: x < 0}
    if name == 'null':
        # "the field must be entirely null": every record holding a value violates it
        if ok:
            return got is None
        return got is not None and all((g is False or not g) for g, x in zip(got, vals) if x is not None)
    want = _expect(vals, preds[name])
    if ok:
        return got is None and all(w is None or w for w in want)
    return _same_flags(got, want)


def k1_nulls_dups_type(vals: List[Optional[int]], max_nulls: int, which: int) -> bool:
    """
    pre: 1 <= len(vals) <= P['rows'] and 0 <= max_nulls <= 2 and 0 <= which < 3
    post: __return__
    """
    return nulls_dups_type_body(vals, max_nulls, which)


def nulls_dups_type_body(vals, max_nulls, which):
    with symdf.patched(pc):
        v = pc.PandasConstraintVerifier(SymFrame({'c': symdf.int_series(vals)}), type_checking='strict')
        if which == 0:
            ok = bool(v.verify_max_nulls_constraint('c', MaxNullsConstraint(max_nulls), True))
            got = _flags(v, 'c_nonnull_ok')
        elif which == 1:
            ok = bool(v.verify_no_duplicates_constraint('c', NoDuplicatesConstraint(True), True))
            got = _flags(v, 'c_nodups_ok')
        else:
            ok = bool(v.verify_tdda_type_constraint('c', TypeConstraint('string'), True))
            got = _flags(v, 'c_type_ok')
    nn = [x for x in vals if x is not None]
    if which == 0:
        if ok:
            return got is None and len(vals) - len(nn) <= max_nulls
        # the null records are the violating ones
        return _same_flags(got, [x is not None for x in vals])
    if which == 1:
        dup = [x is not None and sum(1 for y in nn if y == x) > 1 for x in vals]
        if ok:
            return got is None and not any(dup)
        # every member of a duplicated group is flagged; a null is never flagged false
        return _same_flags(got, [not d for d in dup])
    # type failure: every record
    return (not ok) and _same_flags(got, [False] * len(vals))


def k1_dups(vals: List[Optional[int]]) -> bool:
    """
    pre: 1 <= len(vals) <= P['rows']
    post: __return__
    """
    return nulls_dups_type_body(vals, 0, 1)


def k1_strings(vals: List[Optional[str]], which: int, n: int, a1: str) -> bool:
    """
    pre: 1 <= len(vals) <= P['rows'] and all(x is None or len(x) <= 2 for x in vals)
    pre: 0 <= which < 4 and 0 <= n <= 2 and len(a1) <= 1
    post: __return__
    """
    with symdf.patched(pc):
        v = pc.PandasConstraintVerifier(SymFrame({'c': symdf.str_series(vals)}))
        if which == 0:
            ok = bool(v.verify_min_length_constraint('c', MinLengthConstraint(n), True))
            got, pred = _flags(v, 'c_min_length_ok'), (lambda x: len(x) >= n)
        elif which == 1:
            ok = bool(v.verify_max_length_constraint('c', MaxLengthConstraint(n), True))
            got, pred = _flags(v, 'c_max_length_ok'), (lambda x: len(x) <= n)
        elif which == 2:
            ok = bool(v.verify_allowed_values_constraint('c', AllowedValuesConstraint([a1, 'zz']), True))
            got, pred = _flags(v, 'c_values_ok'), (lambda x: x == a1 or x == 'zz')
        else:
            ok = bool(v.verify_rex_constraint('c', RexConstraint(['^a+$', '^$']), True))
            got, pred = _flags(v, 'c_rex_ok'), (lambda x: all(ch == 'a' for ch in x))
    want = _expect(vals, pred)
    if ok:
        return got is None and all(w is None or w for w in want)
    return _same_flags(got, want)


# ---- K2: counting and selection --------------------------------------------------------------------------
def k2_write(f1: List[Optional[bool]], f2: List[bool], per_constraint: bool, write_all: bool,
             in_place: bool, fields_mode: int, interleave: bool) -> bool:
    """
    pre: 1 <= len(f1) <= P['rows'] and len(f2) == len(f1) and 0 <= fields_mode < 3
    pre: fields_mode == P['fm'] and interleave == P['il']
    post: __return__
    """
    n = len(f1)
    with symdf.patched(pc):
        df = SymFrame({'a': symdf.int_series(list(range(n))), 'b': symdf.str_series(['x'] * n)})
        v = pc.PandasConstraintVerifier(df)
        v.out_df['a_min_ok'] = SymSeries(list(f1), symdf.OBJ)
        v.out_df['b_rex_ok'] = SymSeries(list(f2), symdf.OBJ)
        output_fields = [None, [], ['b']][fields_mode]
        det = v.write_detected_records(detect_per_constraint=per_constraint, detect_write_all=write_all,
                                       detect_in_place=in_place, detect_output_fields=output_fields,
                                       interleave=interleave)
    nfail = [sum(1 for f in (x, y) if f is False) for x, y in zip(f1, f2)]
    failing = [i for i, k in enumerate(nfail) if k > 0]
    if det.n_failing_records != len(failing) or det.n_passing_records + det.n_failing_records != n:
        return False
    out = det.obj
    rows = list(range(n)) if write_all else failing
    if len(out) != len(rows):
        return False
    if list(out['n_failures'].vals) != [nfail[i] for i in rows]:
        return False
    cols = list(out)
    want_cols = set(['n_failures'])
    if per_constraint:
        want_cols |= {'a_min_ok', 'b_rex_ok'}
    if fields_mode == 1:
        want_cols |= {'a', 'b'}
    elif fields_mode == 2:
        want_cols |= {'b'}
    if set(cols) != want_cols or len(cols) != len(want_cols):
        return False
    if fields_mode == 2 and list(out['b'].vals) != ['x'] * len(rows):
        return False
    if interleave and fields_mode == 1 and per_constraint:
        if cols != ['a', 'a_min_ok', 'b', 'b_rex_ok', 'n_failures']:
            return False
    # the input frame is unchanged unless in-place output was requested
    if in_place:
        extra = [c for c in list(df) if c not in ('a', 'b')]
        if set(extra) != (want_cols - {'a', 'b'}):
            return False
    elif list(df) != ['a', 'b']:
        return False
    return True


def k2_ver_field(col: str, k: int) -> bool:
    """
    pre: len(col) <= 3 and 0 <= k < 10
    post: __return__
    """
    kinds = ['type', 'min', 'min_length', 'max', 'max_length', 'sign', 'max_nulls', 'no_duplicates',
             'allowed_values', 'rex']
    return pc.is_ver_field(pc.verification_field(col, kinds[k]), col)


# ---- K3: verdict agreement between verify and detect ----------------------------------------------------------
def _both(make_verifier, call):
    with symdf.patched(pc):
        r1 = bool(call(make_verifier(), False))
        r2 = bool(call(make_verifier(), True))
    return r1 == r2


def k3_agree_int(vals: List[Optional[int]], bound: int, s: int, mn: int, which: int) -> bool:
    """
    pre: len(vals) <= P['rows'] and 0 <= s < 6 and 0 <= mn <= 2 and 0 <= which < 6
    post: __return__
    """
    mk = lambda: pc.PandasConstraintVerifier(SymFrame({'c': symdf.int_series(vals)}), epsilon=0)
    calls = [lambda v, d: v.verify_min_constraint('c', MinConstraint(bound), d),
             lambda v, d: v.verify_max_constraint('c', MaxConstraint(bound, precision='open'), d),
             lambda v, d: v.verify_sign_constraint('c', SignConstraint(SIGNS[s]), d),
             lambda v, d: v.verify_max_nulls_constraint('c', MaxNullsConstraint(mn), d),
             lambda v, d: v.verify_no_duplicates_constraint('c', NoDuplicatesConstraint(True), d),
             lambda v, d: v.verify_tdda_type_constraint('c', TypeConstraint(['int', 'string']), d)]
    return _both(mk, calls[which])


def k3_agree_str(vals: List[Optional[str]], a1: str, n: int, which: int) -> bool:
    """
    pre: len(vals) <= P['rows'] and all(x is None or len(x) <= 1 for x in vals)
    pre: len(a1) <= 1 and 0 <= n <= 2 and 0 <= which < 4
    post: __return__
    """
    mk = lambda: pc.PandasConstraintVerifier(SymFrame({'c': symdf.str_series(vals)}))
    calls = [lambda v, d: v.verify_allowed_values_constraint('c', AllowedValuesConstraint([a1]), d),
             lambda v, d: v.verify_rex_constraint('c', RexConstraint(['^a$']), d),
             lambda v, d: v.verify_min_length_constraint('c', MinLengthConstraint(n), d),
             lambda v, d: v.verify_max_length_constraint('c', MaxLengthConstraint(n), d)]
    return _both(mk, calls[which])


def k3_detection_counts(vals: List[Optional[int]], lo: int) -> bool:
    """
    pre: len(vals) <= P['rows']
    post: __return__
    """
    cons = DatasetConstraints([FieldConstraints('c', [MinConstraint(lo, precision='closed'), MaxNullsConstraint(0)])])
    with symdf.patched(pc):
        v = pc.PandasConstraintVerifier(SymFrame({'c': symdf.int_series(vals)}))
        r = v.detect(cons, VerificationClass=pc.PandasDetection, per_constraint=True)
    if (r.detection is not None) != (r.failures > 0):
        return False
    if r.detection is None:
        return True
    d = r.detection
    bad = [i for i, x in enumerate(vals) if x is None or x < lo]
    nulls = any(x is None for x in vals)
    low = any(x is not None and x < lo for x in vals)
    want_bad = [i for i, x in enumerate(vals) if (x is None and nulls) or (x is not None and x < lo and low)]
    return (d.n_passing_records + d.n_failing_records == len(vals) and d.n_failing_records == len(want_bad)
            and len(d.obj) == len(want_bad))


# ---- K4: output file exists afterwards iff some constraint failed ------------------------------------------------
class _C:
    def __init__(self, kind):
        self.kind = kind
        self.value = 1


class _FCs:
    def __init__(self, cs):
        self.cs = cs

    def __iter__(self):
        return iter(self.cs)


class _DC:
    def __init__(self, fields):
        self.fields = fields


def k4_outfile(verdicts: List[bool], stale: bool) -> bool:
    """
    pre: 1 <= len(verdicts) <= 3
    post: __return__
    """
    kinds = ['type', 'min', 'max'][:len(verdicts)]
    fields = TDDAObject()
    fields['c'] = _FCs([_C(k) for k in kinds])
    table = dict(zip(kinds, verdicts))
    path = '/out/bads.csv'
    fs = fakefs.FakeFS({path: 'stale rows from an earlier run'} if stale else {}, dirs=['/out'])

    def writer(**kw):
        with fs.open(kw['detect_outpath'], 'w') as f:
            f.write('detected')
        return base.Detection(None, 0, 1)
    verifiers = {k: (lambda kk: (lambda name, c, detect: table[kk]))(k) for k in kinds}
    with fakefs.patched(fs, base):
        r = base.detect(_DC(fields), ['c'], verifiers, detected_records_writer=writer, detect_outpath=path)
    failed = any(not x for x in verdicts)
    if fs.exists(path) != failed:
        return False
    if failed and fs.files[path] != 'detected':
        return False
    return (r.detection is not None) == failed


def _obs():
    obs = []
    Q, T = 'quick', 'thorough'
    for rows, tier, to in ((3, Q, 300), (4, T, 2400)):
        obs.append(Ob('K1', 'k1_min_max', 'failing min/max: the flag column is false exactly on the non-null records '
                      'beyond the bound (strictly for open precision), null records are not flagged; passing: no '
                      'column', 'int column of 1..%d rows, ANY ints/nulls; bound any int; 3 precisions; epsilon 0'
                      % rows, param={'rows': rows}, timeout=to, tier=tier, stubs=['symdf']))
        obs.append(Ob('K1', 'k1_date_min_max', 'failing min/max with a date bound: flags false exactly on the non-null '
                      'records beyond the bound - strictly beyond for closed and fuzzy, at or beyond for open',
                      'date column of 1..%d rows, day offsets 0..3 or null; bound offset 0..3; 3 precisions; epsilon '
                      '0.01' % min(rows, 3), param={'rows': min(rows, 3)}, timeout=to, tier=tier, stubs=['symdf']))
        obs.append(Ob('K1', 'k1_detect_dispatch', 'per-record min/max flags with a non-zero epsilon: closed and open '
                      'precision never consult the fuzzy comparison; fuzzy precision is decided by it alone, called '
                      'with (column, bound, epsilon)', 'int column of 1..%d rows; bound any int; 3 precisions; epsilon '
                      '0.25; the fuzzy helper answers arbitrarily per record' % rows, param={'rows': rows},
                      timeout=to, tier=tier, stubs=['symdf', 'df_fuzzy_gt/df_fuzzy_lt -> recorder (their arithmetic '
                                                    'is C02-K2)']))
        obs.append(Ob('K1', 'k1_sign', 'failing sign: flag false exactly on the non-null records outside the sign '
                      'class ("null": on every record holding a value)', 'int column of 1..%d rows; 6 sign classes'
                      % rows, param={'rows': rows}, timeout=to, tier=tier, stubs=['symdf']))
        obs.append(Ob('K1', 'k1_nulls_dups_type', 'max_nulls failure flags exactly the null records; no_duplicates '
                      'failure flags every member of a duplicated group and no null; a type failure flags every record',
                      'int column of 1..%d rows; max_nulls 0..2' % rows, param={'rows': rows}, timeout=to, tier=tier,
                      stubs=['symdf']))
    obs.append(Ob('K1', 'k1_dups', 'no_duplicates failure on a column long enough to hold a duplicated pair AND several '
                  'nulls: every member of a duplicated group is flagged false, no null record is', 'int column of 1..4 '
                  'rows, ANY ints/nulls', param={'rows': 4}, timeout=400, tier=Q, stubs=['symdf']))
    for rows, tier, to in ((2, Q, 400), (3, T, 2400)):
        obs.append(Ob('K1', 'k1_strings', 'min_length / max_length / allowed_values / rex failures flag exactly the '
                      'non-null records violating them', 'object column of 1..%d rows of symbolic strings len<=2 or '
                      'null; lengths 0..2; allowed list with one symbolic member' % rows, param={'rows': rows},
                      timeout=to, tier=tier, stubs=['symdf']))
    for rows, tier, to in ((2, Q, 400), (3, T, 3000)):
        for fm in (0, 1, 2):
            for il in (False, True):
                if il and fm != 1 and tier == Q:
                    continue
                obs.append(Ob('K2', 'k2_write', 'write_detected_records: n_failures per record = its number of false '
                              'flags; passing + failing = rows; the frame returned holds exactly the failing records '
                              'unless all are requested, with the requested columns; the input frame is unchanged '
                              'unless in-place',
                              '1..%d records x 2 flag columns (first true/false/null, second true/false, symbolic); per_constraint, '
                              'write_all, in_place symbolic; output_fields %s; interleave %s'
                              % (rows, ['None', '[]', '[b]'][fm], il), param={'rows': rows, 'fm': fm, 'il': il},
                              timeout=to, tier=tier, stubs=['symdf']))
    obs.append(Ob('K2', 'k2_ver_field', 'is_ver_field(verification_field(col, kind), col) for every kind, so '
                  'interleaving finds its columns', 'col: any string len<=3; 10 kinds', timeout=120))
    for rows, tier, to in ((3, Q, 400), (4, T, 3000)):
        obs.append(Ob('K3', 'k3_agree_int', 'each verifier returns the same verdict with and without detection '
                      '(min, open max, sign, max_nulls, no_duplicates, type list)',
                      'int column of <=%d rows, ANY ints/nulls; symbolic constraint values' % rows,
                      param={'rows': rows}, timeout=to, tier=tier, stubs=['symdf']))
        obs.append(Ob('K3', 'k3_agree_str', 'each string verifier returns the same verdict with and without detection '
                      '(allowed_values - whose non-detect path short-cuts on counts -, rex, lengths)',
                      'object column of <=%d rows of symbolic strings len<=1 or null' % rows,
                      param={'rows': rows}, timeout=to, tier=tier, stubs=['symdf']))
        obs.append(Ob('K3', 'k3_detection_counts', 'a detection exists iff something failed; passing + failing '
                      'records = rows; failing = the records with at least one false flag; the returned frame holds '
                      'exactly those', 'int column of <=%d rows with a closed min and max_nulls 0' % rows,
                      param={'rows': rows}, timeout=to, tier=tier, stubs=['symdf']))
    obs.append(Ob('K4', 'k4_outfile', 'after base.detect with an output path the file exists iff some constraint '
                  'failed, whether or not a stale file from an earlier run was there',
                  '1..3 symbolic verdicts; stale file present/absent', timeout=120,
                  stubs=['fakefs', 'verifier callables return the symbolic verdicts', 'records writer writes a marker']))
    return obs


PREFLIGHT = ['vp.doubles.conformance:symdf_conformance']
OBLIGATIONS = _obs()
ASSUMPTIONS = ['symdf contract (vp/doubles/symdf.py), checked against real pandas by the conformance pass']
OUTSIDE = ['CSV/parquet writers, convert_output_types on real dtypes, MultiIndex', 'fuzzy flags with epsilon > 0 '
           '(df_fuzzy_gt/lt are C02-K2)']
