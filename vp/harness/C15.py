"""C15 - failed text assertions leave faithful artefacts; passing ones leave none."""
import re
from typing import List, Optional

from vp.ob import Ob
from vp import rt
from vp.oracles import text_rule
from vp.doubles import fakefs

import tdda.referencetest.checkfiles as cf
import tdda.referencetest.basecomparison as bc
from tdda.referencetest.checkfiles import FilesComparison

P = rt.param({})
TMP = '/tmp/T'


def _msg_lines(msgs):
    out = []
    for m in msgs:
        out.extend(str(m).split('\n'))
    return out


def _named_paths(msgs):
    """paths named by the comparison commands in a failure message"""
    paths = []
    for ln in _msg_lines(msgs):
        s = ln.strip()
        if s.startswith('diff ') or s.startswith('cp ') or s.startswith('fc ') or s.startswith('copy '):
            paths.extend(s.split(' ')[1:])
    return paths


# ---- K1: binary report ----------------------------------------------------------------------------
def k1_binary(a: List[int], b: List[int]) -> bool:
    """
    pre: len(a) <= P['n'] and len(b) <= P['n']
    pre: all(0 <= x <= 255 for x in a) and all(0 <= x <= 255 for x in b)
    post: __return__
    """
    return binary_body(a, b)


def binary_body(a, b):
    # (plain function shared with C12: contracted callees are assumed correct by CrossHair)
    A, B = bytes(a), bytes(b)
    fs = fakefs.FakeFS({'/out/a.bin': A, '/ref/r.bin': B})
    with fakefs.patched(fs, cf, bc):
        fc = FilesComparison(verbose=False, tmp_dir=TMP)
        code, msgs = fc.check_binary_file('/out/a.bin', '/ref/r.bin')
    if fs.written() or fs.deleted():
        return False
    if list(a) == list(b):
        return code == 0 and len(_msg_lines(msgs)) == 0
    if code != 1:
        return False
    off = 0
    while off < len(a) and off < len(b) and a[off] == b[off]:
        off += 1
    text = ' '.join(_msg_lines(msgs))
    m = re.search(r'First difference at byte offset (\d+), (both files have length (\d+)|'
                  r'actual length (\d+), expected length (\d+))', text)
    if not m or int(m.group(1)) != off:
        return False
    if len(a) == len(b):
        return m.group(3) is not None and int(m.group(3)) == len(a)
    return m.group(4) is not None and int(m.group(4)) == len(a) and int(m.group(5)) == len(b)


def _cls(x):
    return 'e' if x == '' else '#' if '#' in x else '!' if '!' in x else 'x'


def _split_ok(split, actual, expected):
    """case split used only to spread one obligation over several processes: the longer side has exactly
    its maximum length and its first line is of the given class (empty / holds # / holds ! / other)"""
    if not split:
        return True
    side, c0 = split
    lines = expected if side == 'e' else actual
    n = P['nle'] if side == 'e' else P['nla']
    return len(lines) == n and _cls(lines[0]) == c0


# ---- K2: reconstruction differs exactly at the unexcused lines --------------------------------------
def k2_reconstruction(actual: List[str], expected: List[str]) -> bool:
    """
    pre: len(actual) <= P['nla'] and len(expected) <= P['nle']
    pre: all(len(x) <= P['nc'] for x in actual) and all(len(x) <= P['nc'] for x in expected)
    pre: _split_ok(P.get('split'), actual, expected)
    post: __return__
    """
    captured = {}
    saved_add = FilesComparison.add_failures
    saved_marker = FilesComparison.diff_marker

    def add(self, msgs, reconstruction, *a, **k):
        captured['r'] = reconstruction
    FilesComparison.add_failures = add
    # both sides receive the SAME marker text whatever it is; its content is irrelevant to the property
    FilesComparison.diff_marker = lambda self, left, right: '<>'
    try:
        fc = FilesComparison(verbose=False, tmp_dir=TMP)
        r = fc.check_strings(list(actual), list(expected), ignore_substrings=['#'], remove_lines=['!'],
                             create_temporaries=False)
    finally:
        FilesComparison.add_failures = saved_add
        FilesComparison.diff_marker = saved_marker
    want, bad = text_rule(list(actual), list(expected), None, ['#'], ['!'])
    if (r.failures == 0) != want:
        return False
    if want:
        return True
    rec = captured.get('r')
    if rec is None:
        return False
    ra, re_ = rec.diff_actual, rec.diff_expected
    if bad is None:
        # different numbers of kept lines: the two post-processed sides must differ somewhere
        return ra != re_
    a2 = list(actual)
    e2 = list(expected)
    if a2 and a2[-1] == '':
        a2 = a2[:-1]
    if e2 and e2[-1] == '':
        e2 = e2[:-1]
    if len(ra) != len(re_):
        return False
    diffs = [(x, y) for x, y in zip(ra, re_) if x != y]
    return diffs == [(a2[i], e2[j]) for i, j in bad]


def lift_reconstruction(actual, expected):
    """public API with real files: the post-processed pair must differ exactly at the unexcused lines"""
    import os
    import shutil
    import tempfile
    d = tempfile.mkdtemp(prefix='vp_c15_')
    try:
        ref = os.path.join(d, 'r.txt')
        with open(ref, 'w') as f:
            f.write('\n'.join(expected))
        fc = FilesComparison(verbose=False, tmp_dir=os.path.join(d, 'tmp'))
        os.mkdir(os.path.join(d, 'tmp'))
        code, msgs = fc.check_string_against_file(list(actual), ref, ignore_substrings=['#'], remove_lines=['!'])
        want, bad = text_rule(list(actual), list(expected), None, ['#'], ['!'])
        if (code == 0) != want:
            return False
        if want or bad is None:
            return True
        pa = open(os.path.join(d, 'tmp', 'actual-r.txt'), newline='').read().split('\n')
        pe = open(os.path.join(d, 'tmp', 'expected-r.txt'), newline='').read().split('\n')
        if len(pa) != len(pe):
            return False
        a2 = list(actual)
        e2 = list(expected)
        if a2 and a2[-1] == '':
            a2 = a2[:-1]
        if e2 and e2[-1] == '':
            e2 = e2[:-1]
        return [(x, y) for x, y in zip(pa, pe) if x != y] == [(a2[i], e2[j]) for i, j in bad]
    finally:
        shutil.rmtree(d, ignore_errors=True)


# ---- K3: files written -------------------------------------------------------------------------------
def _lines_equal_mod_final_newline(text, lines):
    """equal as line lists, trailing empty lines not significant: the writer joins lines with a newline and
    the comparison itself drops a trailing empty line, so trailing blank lines cannot be represented"""
    t = text.split('\n')
    while t and t[-1] == '':
        t = t[:-1]
    l2 = list(lines)
    while l2 and l2[-1] == '':
        l2 = l2[:-1]
    return t == l2


def _drop_first(lines):
    return lines[1:]


def k3_artefacts(actual: str, ref: str) -> bool:
    """
    pre: len(actual) <= P['nc'] and len(ref) <= P['nc']
    post: __return__
    """
    opts = {}
    if P.get('rem'):
        opts['remove_lines'] = ['!']
    if P.get('ign'):
        opts['ignore_substrings'] = ['#']
    if P.get('pre'):
        opts['preprocess'] = _drop_first
    fs = fakefs.FakeFS({'/ref/r.txt': ref}, dirs=[TMP, '/ref'])
    saved_marker = FilesComparison.diff_marker
    FilesComparison.diff_marker = lambda self, left, right: '<>'
    try:
        with fakefs.patched(fs, cf, bc):
            fc = FilesComparison(verbose=False, tmp_dir=TMP)
            if P.get('enc'):
                opts['encoding'] = P['enc']
            code, msgs = fc.check_string_against_file(actual, '/ref/r.txt', **opts)
    finally:
        FilesComparison.diff_marker = saved_marker
    if fs.files.get('/ref/r.txt') != ref or fs.deleted():
        return False
    if P.get('enc'):
        # an explicit encoding governs every text file the assertion reads or writes (the reference, the raw
        # actual, the post-processed pair): anything else cannot hold "exactly the actual content"
        for path_, enc_ in fs.read_encodings:
            if enc_ != P['enc']:
                return False
        for path_ in fs.written():
            if fs.encodings.get(path_) != ('w', P['enc']):
                return False
    if code == 0:
        return fs.written() == []
    for w in fs.written():
        if not w.startswith(TMP + '/'):
            return False
    named = _named_paths(msgs)
    if not named:
        return False
    for p in named:
        if not fs.exists(p):
            return False
        if p != '/ref/r.txt' and not p.startswith(TMP + '/'):
            return False
    raw = fs.files.get(TMP + '/actual-raw-r.txt')
    if raw is None or (TMP + '/actual-raw-r.txt') not in named:
        return False
    return _lines_equal_mod_final_newline(raw, actual.splitlines())


def k3_file_artefacts(actual: str, ref: str, in_tmp: bool) -> bool:
    """
    pre: len(actual) <= P['nc'] and len(ref) <= P['nc']
    post: __return__
    """
    # file-vs-file: whatever the artefacts are called, the two files compared are never written to - also when
    # the actual file itself lies in the temporary directory under the library's own actual-<name> convention
    apath = (TMP + '/actual-r.txt') if in_tmp else '/out/a.txt'
    fs = fakefs.FakeFS({'/ref/r.txt': ref, apath: actual}, dirs=[TMP, '/ref', '/out'])
    saved_marker = FilesComparison.diff_marker
    FilesComparison.diff_marker = lambda self, left, right: '<>'
    try:
        with fakefs.patched(fs, cf, bc):
            fc = FilesComparison(verbose=False, tmp_dir=TMP)
            code, msgs = fc.check_file(apath, '/ref/r.txt', remove_lines=['!'], ignore_substrings=['#'])
    finally:
        FilesComparison.diff_marker = saved_marker
    if fs.files.get('/ref/r.txt') != ref or fs.files.get(apath) != actual or fs.deleted():
        return False
    if code == 0:
        return fs.written() == []
    for w in fs.written():
        if not w.startswith(TMP + '/') or w in (apath, '/ref/r.txt'):
            return False
    named = _named_paths(msgs)
    return bool(named) and all(fs.exists(p_) for p_ in named) and apath in named


def _one_pair(a, r, name):
    """what the single-file comparison of this pair writes (a fresh filesystem and a fresh message object)"""
    fs = fakefs.FakeFS({'/ref/' + name: r, '/out/' + name: a}, dirs=[TMP, '/ref', '/out'])
    with fakefs.patched(fs, cf, bc):
        fc = FilesComparison(verbose=False, tmp_dir=TMP)
        code, msgs = fc.check_file('/out/' + name, '/ref/' + name, remove_lines=['!'], ignore_substrings=['#'])
    return code, dict((w, fs.files[w]) for w in fs.written())


def k3_multi_file(a1: str, r1: str, a2: str, r2: str) -> bool:
    """
    pre: len(a1) <= P['nc'] and len(r1) <= P['nc'] and len(a2) <= P['nc'] and len(r2) <= P['nc']
    pre: _cls(a1) == P['split'][0] and _cls(r1) == P['split'][1]
    post: __return__
    """
    # a list-of-files assertion: each pair's artefacts are those of that pair - exactly the files, with exactly the
    # content, that the single-file comparison of the pair leaves (nothing carried over from an earlier pair)
    saved_marker = FilesComparison.diff_marker
    FilesComparison.diff_marker = lambda self, left, right: '<>'
    try:
        c1, w1 = _one_pair(a1, r1, 'p.txt')
        c2, w2 = _one_pair(a2, r2, 'q.txt')
        files = {'/ref/p.txt': r1, '/out/p.txt': a1, '/ref/q.txt': r2, '/out/q.txt': a2}
        fs = fakefs.FakeFS(dict(files), dirs=[TMP, '/ref', '/out'])
        with fakefs.patched(fs, cf, bc):
            fc = FilesComparison(verbose=False, tmp_dir=TMP)
            code, msgs = fc.check_files(['/out/p.txt', '/out/q.txt'], ['/ref/p.txt', '/ref/q.txt'],
                                        remove_lines=['!'], ignore_substrings=['#'])
    finally:
        FilesComparison.diff_marker = saved_marker
    if fs.deleted() or any(fs.files.get(k) != v for k, v in files.items()):
        return False
    if code != (1 if c1 else 0) + (1 if c2 else 0):
        return False
    want = dict(w1)
    want.update(w2)
    got = dict((w, fs.files[w]) for w in fs.written())
    if got != want:
        return False
    named = _named_paths(msgs)
    return all(fs.exists(p_) for p_ in named) and (code == 0 or bool(named))


def lift_artefacts(actual, ref):
    """public API with real files"""
    import os
    import shutil
    import tempfile
    d = tempfile.mkdtemp(prefix='vp_c15_')
    try:
        refp = os.path.join(d, 'r.txt')
        with open(refp, 'w', newline='') as f:
            f.write(ref)
        tmp = os.path.join(d, 'tmp')
        os.mkdir(tmp)
        opts = {}
        if P.get('rem'):
            opts['remove_lines'] = ['!']
        if P.get('ign'):
            opts['ignore_substrings'] = ['#']
        if P.get('pre'):
            opts['preprocess'] = _drop_first
        fc = FilesComparison(verbose=False, tmp_dir=tmp)
        code, msgs = fc.check_string_against_file(actual, refp, **opts)
        if code == 0:
            return os.listdir(tmp) == []
        rawp = os.path.join(tmp, 'actual-raw-r.txt')
        if not os.path.exists(rawp):
            return False
        with open(rawp, newline='') as f:
            raw = f.read()
        return _lines_equal_mod_final_newline(raw, actual.splitlines())
    finally:
        shutil.rmtree(d, ignore_errors=True)


def _obs():
    obs = []
    for n, tier, to in ((3, 'quick', 300), (4, 'thorough', 2400)):
        obs.append(Ob('K1', 'k1_binary', 'check_binary_file: equal bytes pass with no message; otherwise the reported '
                      'offset is the first differing index (or the shorter length) and both lengths are exact; '
                      'nothing is written', 'two symbolic byte strings of length <=%d' % n, param={'n': n},
                      timeout=to, tier=tier, stubs=['fakefs']))
    cfgs = [(2, 2, 1, None, 'quick', 300)]
    for c0 in 'e#!x':
        cfgs.append((2, 3, 1, ['e', c0], 'quick', 400))
        cfgs.append((3, 2, 1, ['a', c0], 'quick', 400))
        cfgs.append((3, 3, 1, ['e', c0], 'thorough', 3000))
        cfgs.append((2, 3, 2, ['e', c0], 'thorough', 3000))
    for nla, nle, nc, split, tier, to in cfgs:
        obs.append(Ob('K2', 'k2_reconstruction', 'after a failing comparison with exclusions in force the two '
                      'post-processed line lists differ exactly at the lines the reference rule calls unexcused',
                      'actual <=%d lines, expected <=%d lines, of <=%d symbolic characters; ignore_substrings=[#], '
                      'remove_lines=[!]%s' % (nla, nle, nc, '' if not split else
                                              '; case split: %s side has exactly its maximum length and its first '
                                              'line is of class %r' % ('expected' if split[0] == 'e' else 'actual',
                                                                       split[1])),
                      param={'nla': nla, 'nle': nle, 'nc': nc, 'split': split}, timeout=to,
                      tier=tier, lift='lift_reconstruction',
                      stubs=['diff_marker -> constant (both sides get the same marker)', 'add_failures captured']))
    for rem, ign, pre, nc, enc, tier, to in ((0, 0, 0, 2, None, 'quick', 300), (1, 0, 0, 2, None, 'quick', 300),
                                             (1, 1, 0, 2, None, 'quick', 300), (0, 0, 1, 2, None, 'quick', 300),
                                             (1, 1, 0, 2, 'latin-1', 'quick', 300),
                                             (1, 1, 1, 3, None, 'thorough', 3000),
                                             (0, 0, 0, 3, None, 'thorough', 3000),
                                             (0, 0, 1, 2, 'latin-1', 'thorough', 3000)):
        obs.append(Ob('K3', 'k3_artefacts', 'string-vs-file: a pass writes nothing; a failure writes only under '
                      'tmp_dir, names a command whose files all exist, and actual-raw-* holds the actual lines; the '
                      'reference file is untouched and nothing is deleted'
                      + ('; every text file is read and written in the requested encoding' if enc else ''),
                      'actual, reference text: any strings len<=%d; remove_lines=%s ignore_substrings=%s preprocess=%s'
                      '%s' % (nc, ['!'] if rem else None, ['#'] if ign else None, 'drop-first-line' if pre else None,
                              '; encoding=%r' % enc if enc else ''),
                      param={'rem': rem, 'ign': ign, 'pre': pre, 'nc': nc, 'enc': enc}, timeout=to, tier=tier,
                      lift=None if enc else 'lift_artefacts', stubs=['fakefs', 'diff_marker -> constant']))
    obs.append(Ob('K3', 'k3_file_artefacts', 'file-vs-file with exclusions: a pass writes nothing; a failure writes only '
                  'new files under tmp_dir - the actual and reference files keep their content even when the actual '
                  'file is tmp_dir/actual-<reference name> - and names a command whose files exist, the actual among '
                  'them', 'actual, reference text: any strings len<=2; remove_lines=[!] ignore_substrings=[#]; actual '
                  'file inside or outside tmp_dir', param={'nc': 2}, timeout=400,
                  stubs=['fakefs', 'diff_marker -> constant']))
    for nc, tier, to in ((1, 'quick', 300), (2, 'thorough', 3000)):
        for ca in 'e#!x':
            for cr in 'e#!x':
                obs.append(Ob('K3', 'k3_multi_file', 'list-of-files assertion: the failure count is the number of failing '
                              'pairs and the files written are, name by name and byte by byte, those the single-file '
                              'comparison of each pair writes (no artefact of one pair is derived from another); inputs '
                              'untouched; named files exist',
                              'two pairs of texts, any strings len<=%d each; remove_lines=[!] ignore_substrings=[#]; case '
                              'split: first actual of class %r, first reference of class %r (empty / holds # / holds ! / '
                              'other)' % (nc, ca, cr), param={'nc': nc, 'split': [ca, cr]}, timeout=to, tier=tier,
                              stubs=['fakefs', 'diff_marker -> constant']))
    return obs


OBLIGATIONS = _obs()
ASSUMPTIONS = ['texts are compared as line lists; trailing empty lines are not significant (lines are written joined by a newline and the comparison drops a trailing empty line itself)',
               'fakefs contract (vp/doubles/fakefs.py)']
OUTSIDE = ['byte-level effect of encodings on disk (only which encoding each open() is given is checked); the diff '
           'command itself; DataFrame artefacts']
