"""C11 - gentest: for a repeatable command the generated test exists, compiles and passes.

Only the text-dependent decisions are symbolic; the command itself is not run.
"""
import datetime
import re
from typing import List, Optional

from vp.ob import Ob
from vp import rt
from vp.doubles import fakefs

from tdda.referencetest import gentest
from vp.harness import gentest_common as gc
from tdda.referencetest.gentest import quote_raw, test_def, TestGenerator
from tdda.referencetest.gentest_boilerplate import HEADER, TAIL

P = rt.param({})

# encoding-drift guard: the capture bounds below are read off these patterns
assert gentest.NUM_DATE_TERM == r'(\d{1,4})[/\-\.](\d{1,2})[/\-\.](\d{1,4})', 'NUM_DATE_TERM changed'
assert gentest.EURO_STR_DATE_TERM == r'(\d{1,2})\s' + gentest.MONTH_TERM + r'(\d{2,4})', 'EURO_STR_DATE_TERM changed'
assert gentest.US_STR_DATE_TERM == gentest.MONTH_TERM + r'(\d{1,2})\,?\s?' + r'(\d{2,4})', 'US_STR_DATE_TERM changed'
MONTHS = ['jan', 'january', 'feb', 'sept', 'dec', 'jul']


class _M:
    """a match object whose numeric groups are the symbolic ints themselves"""
    def __init__(self, g):
        self.g = g

    def group(self, i):
        return self.g[i]

    def start(self, i):
        return 0

    def end(self, i):
        return 0


class _FakeRe:
    """re.match doubled: D2 matches; exactly the chosen date pattern matches, yielding the given groups.
    The captured groups are ARBITRARY digit strings within the repeat bounds of the live patterns
    (as ints: int(str) is what the code applies to them)."""
    def __init__(self, which, groups):
        self.which = which
        self.groups = groups

    def match(self, rex, line):
        if rex is gentest.D2:
            return True
        if rex is self.which:
            return _M(self.groups)
        return None


# ---- K1: date detectors never raise -------------------------------------------------------------------
def k1_datelike(branch: int, n1: int, n2: int, n3: int, mi: int, bounded: bool) -> bool:
    """
    pre: 0 <= branch < 3 and 0 <= mi < len(MONTHS)
    pre: 0 <= n1 <= 9999 and 0 <= n2 <= 99 and 0 <= n3 <= 9999
    pre: branch == 0 or n1 <= 99
    post: __return__
    """
    if branch == 0:
        fake = _FakeRe(gentest.NUM_DATE_RE, {2: n1, 3: n2, 4: n3})
    elif branch == 1:
        fake = _FakeRe(gentest.EURO_STR_DATE_RE, {2: n1, 3: MONTHS[mi], 4: n3})
    else:
        fake = _FakeRe(gentest.US_STR_DATE_RE, {2: MONTHS[mi], 3: n1, 4: n3})
    lo = datetime.datetime(2020, 1, 1) if bounded else None
    hi = datetime.datetime(2030, 1, 1) if bounded else None
    saved = gentest.re
    gentest.re = fake
    try:
        m = gentest.is_date_like('x', True, min_time=lo, max_time=hi)   # must not raise
    finally:
        gentest.re = saved
    return m is None or isinstance(m, _M)


def lift_datelike(branch, n1, n2, n3, mi, bounded):
    """public function on real text"""
    if branch == 0:
        lines = ['%d.%d.%d' % (n1, n2, n3), 'v %d-%d-%d ok' % (n1, n2, n3), '%d/%d/%d' % (n1, n2, n3)]
    elif branch == 1:
        lines = ['%d %s %02d' % (n1, MONTHS[mi], n3), 'on %d %s, %02d.' % (n1, MONTHS[mi], n3)]
    else:
        lines = ['%s %d, %02d' % (MONTHS[mi], n1, n3), '%s %d %02d' % (MONTHS[mi], n1, n3)]
    lo = datetime.datetime(2020, 1, 1) if bounded else None
    hi = datetime.datetime(2030, 1, 1) if bounded else None
    for ln in lines:
        gentest.is_date_like(ln, True, min_time=lo, max_time=hi)
        gentest.is_datetime_like(ln)
    return True


def _text(idx, alphabet):
    """string built from symbolic indexes into an alphabet: every string over the alphabet up to the length
    bound is covered, and each path works on a concrete string (compile() and posixpath would otherwise force
    z3 to solve for kilobyte-long symbolic texts)"""
    out = ''
    for i in idx:
        for k in range(len(alphabet)):
            if i == k:              # branch, so that the character is concrete on each path
                out += alphabet[k]
                break
    return out


def _idx_ok(idx, n, alphabet, lo=0):
    return lo <= len(idx) <= n and all(0 <= i < len(alphabet) for i in idx)


# ---- K2: the script text is Python ----------------------------------------------------------------------
def _gen(script, cwd='/cwd'):
    """a TestGenerator with directly constructed state (no command is run)"""
    return gc.make_generator(script, cwd)


def k2_classname(midx: List[int], shape: int) -> bool:
    """
    pre: _idx_ok(midx, P['n'], NAME_ALPHABET) and 0 <= shape < 3
    pre: shape == 2 or len(midx) >= 1
    pre: shape == 0 or NAME_ALPHABET.index('.') not in midx
    post: __return__
    """
    mid = _text(midx, NAME_ALPHABET)
    # the shapes users give: test_<mid>.py, test_<mid>, <mid> (mid free of path separators; an extension
    # other than .py is rejected by canonicalize() with exit 1 before anything is written)
    raw = ['test_' + mid + '.py', 'test_' + mid, mid][shape]
    fs = fakefs.FakeFS({}, dirs=['/cwd'])
    with fakefs.patched(fs, gentest):
        g = _gen(raw)
        text = gc.write_script_text(g, fs)
    compile(text, 'gen.py', 'exec')         # the generated script must be Python
    base = g.script.rsplit('/', 1)[1]
    return g.script.endswith('.py') and base.startswith('test') and (g.ref_subdir() != '' or len(base) <= 8)


NAME_ALPHABET = 'abz09_-.\u00b2'


def k2_test_names(i1: List[int], i2: List[int], i3: List[int]) -> bool:
    """
    pre: _idx_ok(i1, P['n'], FILE_ALPHABET, 1) and _idx_ok(i2, 2, FILE_ALPHABET, 1)
    pre: _idx_ok(i3, 1, FILE_ALPHABET, 1)
    post: __return__
    """
    return test_names_body(i1, i2, i3)


def test_names_body(i1, i2, i3):
    # (no contract on this function: CrossHair assumes the post-conditions of contracted callees, so a harness
    # body shared between obligations must be a plain function)
    n1, n2, n3 = _text(i1, FILE_ALPHABET), _text(i2, FILE_ALPHABET), _text(i3, FILE_ALPHABET)
    g = _BASE
    g.test_names = set(_BASE_NAMES)
    g.test_qualifier = 1
    names = [g.test_name('/out/d1/' + n1), g.test_name('/out/d2/' + n2), g.test_name('/out/d3/' + n3)]
    full = ['test_' + n for n in names]
    if not all(f.isidentifier() for f in full):
        return False
    if len(set(full)) != 3:
        return False
    reserved = {'test_stdout', 'test_stderr', 'test_exit_code', 'test_no_exception'}
    return not (set(full) & reserved)


FILE_ALPHABET = 'a2-\u00b2'      # U+00B2 (superscript two) is alphanumeric but cannot occur in an identifier
_BASE = gc.make_generator('test_x.py')      # one real constructor call, outside tracing
_BASE_NAMES = set(_BASE.test_names)


def k2_quote_raw(sidx: List[int]) -> bool:
    """
    pre: _idx_ok(sidx, P['n'], QUOTE_ALPHABET)
    post: __return__
    """
    s = _text(sidx, QUOTE_ALPHABET)
    # call-site invariant: patterns come from rexpy and are anchored ^...$
    s = '^' + s + '$'
    q = quote_raw(s)
    return eval(q) == s


QUOTE_ALPHABET = '\'"\\a$'
BS = chr(92)


def k2_header_compiles(cidx: List[int]) -> bool:
    """
    pre: _idx_ok(cidx, P['n'], CMD_ALPHABET)
    post: __return__
    """
    cmd = _text(cidx, CMD_ALPHABET)
    import copy
    fs = fakefs.FakeFS({}, dirs=['/cwd'])
    with fakefs.patched(fs, gentest):
        g = copy.copy(_BASE)
        g.test_names = set(_BASE_NAMES)
        g.command = cmd
        g.exclusions = {'STDOUT': (None, [cmd], [cmd])}
        text = gc.write_script_text(g, fs)
    compile(text, 'gen.py', 'exec')        # SyntaxError = the generated script is not Python
    return True


CMD_ALPHABET = '"\'\\a\n%'


# ---- K3: nothing else is deleted ------------------------------------------------------------------------
def k3_deletions(present: List[bool], iterations: int, script_exists: bool, refdir_exists: bool) -> bool:
    """
    pre: len(present) == len(TREE)
    pre: 1 <= iterations <= 3
    pre: script_exists == P['script'] and refdir_exists == P['refdir']
    post: __return__
    """
    files = {}
    dirs = {'/cwd'}
    for p, path in zip(present, TREE):
        if p and (refdir_exists or not path.startswith('/cwd/ref/x')):
            files[path] = 'data'
    if refdir_exists:
        dirs |= {'/cwd/ref', '/cwd/ref/x'}
        if any(p.startswith('/cwd/ref/x/2/') for p in files):
            dirs.add('/cwd/ref/x/2')
        if any(p.startswith('/cwd/ref/x/sub/') for p in files):
            dirs.add('/cwd/ref/x/sub')
    if script_exists:
        files['/cwd/test_x.py'] = 'old script'
    fs = fakefs.FakeFS(files, dirs)
    before = dict(fs.files)
    g = _gen('/cwd/test_x.py')
    g.iterations = iterations
    g.refdir = '/cwd/ref/x'
    with fakefs.patched(fs, gentest):
        g.create_or_empty_ref_dir()
        g.remove_extra_reference_files()
    for p in before:
        if p not in fs.files:
            if not (p == '/cwd/test_x.py' or p.startswith('/cwd/ref/x/')):
                return False
    for p in fs.deleted():
        if not (p == '/cwd/test_x.py' or p.startswith('/cwd/ref/x/') or p == '/cwd/ref/x'):
            return False
    # the reference directory is empty of files afterwards (ready for run 1) and the old script is gone
    left = [p for p in fs.files if p.startswith('/cwd/ref/x/') and '/' not in p[len('/cwd/ref/x/'):]]
    return left == [] and '/cwd/test_x.py' not in fs.files


TREE = ['/cwd/out.txt', '/cwd/ref/other/keep.txt', '/cwd/ref/x/STDOUT', '/cwd/ref/x/old.csv', '/cwd/ref/x/2/STDOUT',
        '/cwd/ref/x/sub/deep.txt', '/cwd/ref/xy/keep.txt', '/cwd/test_xy.py']


OUT_FILES = ['/cwd/a/out.txt', '/cwd/b/out.txt', '/cwd/stdout', '/cwd/plain.csv', '/cwd/b/OUT.txt']


def k4_copy_refs(present: List[bool], iterations: int) -> bool:
    """
    pre: len(present) == len(OUT_FILES) and 1 <= iterations <= 3
    post: __return__
    """
    import copy
    import io
    import contextlib
    files = {p_: 'content of ' + p_ for p_, on in zip(OUT_FILES, present) if on}
    fs = fakefs.FakeFS(files, dirs=['/cwd', '/cwd/a', '/cwd/b'])
    with fakefs.patched(fs, gentest):
        g = copy.copy(_BASE)
        g.test_names = set(_BASE_NAMES)
        g.iterations = iterations
        g.ref_map = {}
        g.reference_files = {run: sorted(files) for run in range(1, iterations + 1)}
        with contextlib.redirect_stdout(io.StringIO()):
            g.create_or_empty_ref_dir()
            for run in range(1, iterations + 1):
                g.copy_reference_files(run)
            g.remove_extra_reference_files()
    # every checked output has its own reference copy, which still exists once generation has tidied up,
    # lies directly under ref/<name>/, holds the output's content, and is the file the test will be pointed at
    seen = set()
    for p_ in files:
        ref = g.ref_map.get(p_, g.ref_path(p_))
        if ref in seen or not fs.exists(ref) or fs.files[ref] != files[p_]:
            return False
        if not ref.startswith(g.refdir + '/') or '/' in ref[len(g.refdir) + 1:]:
            return False
        if ref.rsplit('/', 1)[1].lower() in ('stdout', 'stderr'):
            return False            # would be taken for (and overwrite) a stream's reference
        seen.add(ref)
    # and the outputs themselves are untouched
    return all(fs.files.get(p_) == c for p_, c in files.items())


ONE_RUN_FILES = ['/cwd/o.txt', '/cwd/sub/o.txt', '/cwd/sub/pic.png', '/elsewhere/r.csv']


def k2_one_iteration(present: List[bool]) -> bool:
    """
    pre: len(present) == len(ONE_RUN_FILES) and not (present[0] and present[1])
    post: __return__
    """
    # generation with a single run leaves no per-file type information, so write_script has to look at the
    # files itself: it must finish for output files anywhere (working directory, below it, outside it) and
    # give each one the text or binary test its reference copy calls for
    import copy
    import ast
    files = {p_: 'content of ' + p_ for p_, on in zip(ONE_RUN_FILES, present) if on}
    fs = fakefs.FakeFS(files, dirs=['/cwd', '/cwd/sub', '/elsewhere'])

    class SniffingFileType(gc.FT):
        # like utils.FileType: the type comes from the extension, the encoding from reading the file
        def __init__(self, path):
            full = path if path.startswith('/') else '/cwd/' + path
            if full not in fs.files:
                raise FileNotFoundError(2, 'No such file or directory: %r' % (path,))
            gc.FT.__init__(self, text=not path.endswith('.png'))
    saved = gentest.FileType
    gentest.FileType = SniffingFileType
    try:
        with fakefs.patched(fs, gentest):
            g = copy.copy(_BASE)
            g.test_names = set(_BASE_NAMES)
            g.iterations = 1
            g.ref_map = {}
            g.reference_files = {1: sorted(files)}
            import io
            import contextlib
            with contextlib.redirect_stdout(io.StringIO()):
                g.create_or_empty_ref_dir()
                g.copy_reference_files(1)
                g.generate_exclusions()
            text = gc.write_script_text(g, fs)
    finally:
        gentest.FileType = saved
    compile(text, 'test_x.py', 'exec')
    n_text = text.count('assertTextFileCorrect(')
    n_bin = text.count('assertBinaryFileCorrect(')
    want_bin = sum(1 for p_ in files if p_.endswith('.png'))
    return n_bin == want_bin and n_text == len(files) - want_bin


REF_SPECS = [['/cwd/out*'], ['/cwd/outdir'], ['/cwd/out1.txt'], ['/cwd/o*', '/cwd/outdir'], ['/cwd/*.txt'],
             ['/cwd/nomatch*', '/cwd/other.txt']]
WORLD = ['/cwd/out1.txt', '/cwd/outdir/a.txt', '/cwd/other.txt', '/cwd/outdir/deep/b.txt']


def k4_named_by_glob_or_directory(present: List[bool], spec: int) -> bool:
    """
    pre: len(present) == len(WORLD) and 0 <= spec < len(REF_SPECS)
    post: __return__
    """
    # output files may be named explicitly, by directory or by glob: what generation goes on to copy and test is
    # then a set of existing FILES - every file under a named or matched directory, every matched file - and
    # never a directory or an unexpanded pattern
    import copy
    import fnmatch
    import io
    import contextlib
    names = REF_SPECS[0]
    for k in range(len(REF_SPECS)):
        if spec == k:
            names = REF_SPECS[k]
    files = {p_: 'x' for p_, on in zip(WORLD, present) if on}
    dirs = ['/cwd', '/cwd/outdir', '/cwd/outdir/deep']
    fs = fakefs.FakeFS(files, dirs=dirs)
    saved_glob = gentest.glob
    gentest.glob = fakefs.FakeGlob(fs)
    try:
        with fakefs.patched(fs, gentest):
            g = copy.copy(_BASE)
            g.snapshot = {}
            g.reference_files = {1: set(names)}
            with contextlib.redirect_stdout(io.StringIO()):
                g.update_reference_files(1)
            got = set(g.reference_files[1])
    finally:
        gentest.glob = saved_glob
    want = set()
    for n in names:
        if '*' not in n and '?' not in n and n not in dirs:
            want.add(n)         # a plainly named file is kept as named (whether it exists is settled later)
        for f in files:
            hit = fnmatch.fnmatchcase(f, n) and f.count('/') == n.count('/')
            for d in dirs:
                if (d == n or (fnmatch.fnmatchcase(d, n) and d.count('/') == n.count('/'))) and f.startswith(d + '/'):
                    hit = True
            if hit:
                want.add(f)
    return got == want


def k3_deleters_guard() -> bool:
    """
    post: __return__
    """
    # encoding-drift guard: the functions of gentest.py that delete anything are exactly the two K3 drives
    import ast
    import inspect
    src = inspect.getsource(gentest)
    tree = ast.parse(src)
    deleters = set()
    for fn in ast.walk(tree):
        if isinstance(fn, ast.FunctionDef):
            for node in ast.walk(fn):
                if isinstance(node, ast.Attribute) and node.attr in ('unlink', 'rmtree', 'remove', 'rmdir',
                                                                     'removedirs', 'rename', 'replace', 'move'):
                    if isinstance(node.value, ast.Name) and node.value.id in ('os', 'shutil'):
                        deleters.add(fn.name)
    return deleters == {'create_or_empty_ref_dir', 'remove_extra_reference_files'}


def _obs():
    obs = []
    obs.append(Ob('K1', 'k1_datelike', 'is_date_like never raises, whatever digit strings the date patterns capture '
                  '(numeric d/m/y in the three orders, "12 jan 2020", "jan 12, 2020"), with or without a plausible-time '
                  'window', 'captures as symbolic ints within the repeat bounds of the live patterns (0..9999, 0..99, '
                  '0..9999); month from a menu of %d; 3 branches' % len(MONTHS), timeout=300, lift='lift_datelike',
                  stubs=['gentest.re.match doubled: yields arbitrary captures for one chosen date pattern']))
    for n, tier, to in ((3, 'quick', 300), (4, 'thorough', 2400)):
        obs.append(Ob('K2', 'k2_classname', 'for script names test_<mid>.py / test_<mid> / <mid> the script written by the real '
                      'write_script compiles (class name is an identifier), its path ends .py and starts test', 'mid: every string len<=%d over %r (symbolic index per position)' % (n, NAME_ALPHABET), param={'n': n},
                      timeout=to, tier=tier))
    for n, tier, to in ((2, 'quick', 400), (3, 'thorough', 3000)):
        obs.append(Ob('K2', 'k2_test_names', 'test names generated for three output files are identifiers, pairwise '
                      'distinct, and distinct from the stream/exit-code/exception tests',
                      '3 basenames: every string len 1..%d, 1..2 and 1 over %r (symbolic index per position)' % (n, FILE_ALPHABET), param={'n': n},
                      timeout=to, tier=tier))
    obs.append(Ob('K4', 'k4_named_by_glob_or_directory', 'update_reference_files turns output files named explicitly, '
                  'by directory or by glob into exactly the existing files they denote (directories - also ones a glob '
                  'matched - expanded recursively), never leaving a directory or a pattern in the list',
                  'symbolic subset of %d files in a 3-directory tree; %d naming forms (glob matching files and a '
                  'directory, directory, file, mixtures, a pattern matching nothing)' % (len(WORLD), len(REF_SPECS)),
                  timeout=300, stubs=['fakefs', 'glob -> FakeGlob over the fake file system', 'os.stat -> constant ctime']))
    obs.append(Ob('K2', 'k2_one_iteration', 'with a single run (no per-file type information) write_script finishes '
                  'and writes a compiling script with one text or binary file test per output file, wherever the '
                  'file lies', 'symbolic subset of %d output files (in the working directory, below it, outside it; '
                  'text and binary)' % len(ONE_RUN_FILES), timeout=300,
                  stubs=['fakefs', 'FileType -> extension-based double that must be able to open its path']))
    for n, tier, to in ((4, 'quick', 300), (6, 'thorough', 2400)):
        obs.append(Ob('K2', 'k2_quote_raw', 'quote_raw(s) evaluates back to s', 's = ^ + body + $ with body every string len<=%d over %r (symbolic index per position) '
                      '(rexpy patterns are anchored)' % (n, QUOTE_ALPHABET), param={'n': n}, timeout=to, tier=tier))
    for n, tier, to in ((4, 'quick', 400), (5, 'thorough', 3000)):
        obs.append(Ob('K2', 'k2_header_compiles', 'the script written by the real write_script (header, stream test with exclusion lists, tail) '
                      'compiles as Python, whatever the command text',
                      'command (also used as a substring and a removal): every string len<=%d over %r (symbolic index per position)'
                      % (n, CMD_ALPHABET), param={'n': n}, timeout=to,
                      tier=tier))
    for sc in (False, True):
        for rd in (False, True):
            obs.append(Ob('K3', 'k3_deletions', 'create_or_empty_ref_dir + remove_extra_reference_files delete only '
                          'the old script and files under ref/<name>/, leave ref/<name>/ empty of files, and never '
                          'touch the command\'s outputs or sibling directories',
                          'symbolic presence of %d paths (outputs, sibling ref dirs, nested dirs, look-alike names); '
                          'iterations 1..3; old script present=%s, reference dir present=%s' % (len(TREE), sc, rd),
                          param={'script': sc, 'refdir': rd}, timeout=300, stubs=['fakefs']))
    obs.append(Ob('K4', 'k4_copy_refs', 'copy_reference_files over 1..3 runs + tidy-up: every checked output ends with '
                  'its own reference copy directly under ref/<name>/ that exists, holds its content and is what the '
                  'generated test is pointed at - also when base names collide (same name in two directories, names '
                  'differing in case, a file called stdout); the outputs are untouched',
                  'symbolic presence of %d output paths; iterations 1..3' % len(OUT_FILES), timeout=400,
                  stubs=['fakefs']))
    obs.append(Ob('K3', 'k3_deleters_guard', 'the only functions in gentest.py that call os/shutil deleting or moving '
                  'functions are the two that K3 drives', 'AST of the current gentest.py', timeout=60, twin=False))
    return obs


OBLIGATIONS = _obs()
ASSUMPTIONS = ['"passes straight afterwards" is by composition: references are copies of run 1; C04-K2 (identical text '
               'passes under every exclusion set) and C15-K1 (equal bytes => no difference)',
               'script names contain no path separator; file names over a small alphabet']
OUTSIDE = ['subprocess execution of the command and of the generated script', 'difflib/chardet', 'snapshot by ctime']
