"""C12 - gentest: the generated test fails when the command behaves differently.

Decided compositionally (the generate -> mutate -> re-run loop is a subprocess experiment, outside this technique):
K1 one live test per output, K2 each test compares the right things, K3 exclusions are limited; then C04-K1 (any
unexcused difference fails), C04-K4 (missing file fails) and C15-K1 (binary) give the property.
"""
import ast
import copy
import datetime
from typing import List, Optional

from vp.ob import Ob
from vp import rt
from vp.doubles import fakefs
from vp.harness import gentest_common as gc

from tdda.referencetest import gentest
from tdda.referencetest.gentest import Specifics

from vp.harness import rexpy_common
rexpy_common.memoise_categories()

P = rt.param({})
_BASE = gc.make_generator('test_x.py')
_BASE_NAMES = set(_BASE.test_names)
FILES = ['/cwd/out.csv', '/cwd/plot.png', '/cwd/sub/out.csv', '/cwd/stdout']


def _fresh():
    g = copy.copy(_BASE)
    g.test_names = set(_BASE_NAMES)
    g.test_qualifier = 1
    g.exclusions = {}
    g.filetypes = {}
    g.ref_map = {}
    g.warnings = []
    return g


def _refname(f):
    short = f.rsplit('/', 1)[1]
    return short + ('1' if short.lower() in ('stdout', 'stderr') else '')


def _call_info(fn):
    """the assert*Correct calls in a generated test method: [(method, first-arg source, second-arg source, kwargs)]"""
    out = []
    for node in ast.walk(fn):
        if isinstance(node, ast.Call) and isinstance(node.func, ast.Attribute) and node.func.attr.startswith('assert'):
            out.append((node.func.attr, ast.unparse(node.args[0]) if node.args else None,
                        ast.unparse(node.args[1]) if len(node.args) > 1 else None,
                        sorted(k.arg for k in node.keywords)))
    return out


# ---- K2: each test compares the right things -----------------------------------------------------------
def k2_script_structure(check_stdout: bool, check_stderr: bool, present: List[bool], excl: List[bool],
                        exit_code: int) -> bool:
    """
    pre: len(present) == len(FILES) and len(excl) == len(FILES) + 2
    pre: exit_code in (0, 3)
    pre: not (present[0] and present[2])
    pre: not (excl[1] or excl[3] or excl[4] or excl[5])
    post: __return__
    """
    g = _fresh()
    g.check_stdout = check_stdout
    g.check_stderr = check_stderr
    g.results = {1: gc.R(exit_code=exit_code)}
    files = [f for f, p in zip(FILES, present) if p]
    g.reference_files = {1: list(files)}
    for f in files:
        short = f.rsplit('/', 1)[1]
        if short.lower() in ('stdout', 'stderr'):
            # what copy_reference_files records when a file's reference name collides with a stream's
            g.ref_map[f] = g.ref_path(f) + '1'
            short = short + '1'
        g.filetypes[short] = gc.FT(text=not short.endswith('.png'))
    names = ['STDOUT', 'STDERR'] + [_refname(f) for f in FILES]
    for nm, e in zip(names, excl):
        if e:
            g.exclusions[nm] = (['^a\\d+$'], ['gone'], ['hostx'])
    fs = fakefs.FakeFS({}, dirs=['/cwd'])
    with fakefs.patched(fs, gentest):
        text = gc.write_script_text(g, fs)
    tree = ast.parse(text)
    classes = [n for n in tree.body if isinstance(n, ast.ClassDef)]
    if len(classes) != 1:
        return False
    cls = classes[0]
    fns = [n for n in cls.body if isinstance(n, ast.FunctionDef)]
    names_ = [f.name for f in fns]
    if len(set(names_)) != len(names_):
        return False                        # a later def would silently replace an earlier one
    tests = {f.name: f for f in fns if f.name.startswith('test_')}
    want = {'test_no_exception', 'test_exit_code'}
    if check_stdout:
        want.add('test_stdout')
    if check_stderr:
        want.add('test_stderr')
    if len(tests) != len(want) + len(files) or not want <= set(tests):
        return False
    # exit code test compares with the recorded status
    ec = _call_info(tests['test_exit_code'])
    if ec != [('assertEqual', 'self.exit_code', str(exit_code), [])]:
        return False
    if _call_info(tests['test_no_exception']) != [('assertIsNone', 'self.exception', None, [])]:
        return False
    kw_excl = ['ignore_patterns', 'ignore_substrings', 'remove_lines']
    for stream, attr, ref, on in (('stdout', 'self.output', 'STDOUT', check_stdout),
                                  ('stderr', 'self.error', 'STDERR', check_stderr)):
        if on:
            calls = _call_info(tests['test_' + stream])
            kws = kw_excl if g.exclusions.get(ref) else []
            if calls != [('assertStringCorrect', attr, "os.path.join(self.refdir, '%s')" % ref, kws)]:
                return False
    # one test per reference file, comparing that file with the reference of the same name
    seen = []
    for name, fn in tests.items():
        if name in want:
            continue
        calls = _call_info(fn)
        if len(calls) != 1:
            return False
        method, actual, ref, kws = calls[0]
        seen.append((method, actual, ref, kws))
    expect = []
    for f in files:
        short = f.rsplit('/', 1)[1]
        tail = f[len('/cwd/'):]
        refname = _refname(f)
        if short.endswith('.png'):
            expect.append(('assertBinaryFileCorrect', "os.path.join(self.cwd, '%s')" % tail,
                           "os.path.join(self.refdir, '%s')" % refname, []))
        else:
            expect.append(('assertTextFileCorrect', "os.path.join(self.cwd, '%s')" % tail,
                           "os.path.join(self.refdir, '%s')" % refname,
                           kw_excl if g.exclusions.get(refname) else []))
    if sorted(seen) != sorted(expect):
        return False
    # previous outputs are removed before the command is re-run, and every reference file is listed
    gen = [n for n in cls.body if isinstance(n, ast.Assign) and ast.unparse(n.targets[0]) == 'generated_files']
    if files:
        if len(gen) != 1:
            return False
        listed = [ast.unparse(e) for e in gen[0].value.elts]
        if sorted(listed) != sorted("os.path.join(cwd, '%s')" % f[len('/cwd/'):] for f in files):
            return False
        setup = [f for f in fns if f.name == 'setUpClass'][0]
        if 'os.unlink(path)' not in ast.unparse(setup):
            return False
    return True


def k2_tmpdir_file(with_cwd_file: bool, binary: bool) -> bool:
    """
    post: __return__
    """
    # an output file the command writes under gentest's $TMPDIR: at test time the command gets a fresh $TMPDIR, so
    # the generated test must look for the file there (self.tmpdir), never at the path it had during generation
    g = _fresh()
    g.tmp_dir_shell_var = 'TMPDIR'
    g.tmpdir = gentest.TMPDIR
    g.tmpdir_used = True
    name = 'report.png' if binary else 'report.txt'
    tmpf = gentest.TMPDIR + '/' + name
    files = [tmpf] + (['/cwd/out.csv'] if with_cwd_file else [])
    g.reference_files = {1: list(files)}
    g.filetypes[name] = gc.FT(text=not binary)
    g.filetypes['out.csv'] = gc.FT(text=True)
    fs = fakefs.FakeFS({}, dirs=['/cwd'])
    with fakefs.patched(fs, gentest):
        text = gc.write_script_text(g, fs)
    tree = ast.parse(text)
    cls = [n for n in tree.body if isinstance(n, ast.ClassDef)][0]
    fns = {n.name: n for n in cls.body if isinstance(n, ast.FunctionDef)}
    tname = 'test_report_png' if binary else 'test_report_txt'
    if tname not in fns:
        return False
    calls = _call_info(fns[tname])
    method = 'assertBinaryFileCorrect' if binary else 'assertTextFileCorrect'
    if calls != [(method, "os.path.join(self.tmpdir, '%s')" % name, "os.path.join(self.refdir, '%s')" % name, [])]:
        return False
    # tmpdir itself comes from the environment at test time
    assigns = [ast.unparse(n) for n in ast.walk(cls) if isinstance(n, ast.Assign) and ast.unparse(n.targets[0]) == 'tmpdir']
    if not assigns or any(gentest.TMPDIR in a for a in assigns) or not any('environ' in a for a in assigns):
        return False
    return gentest.TMPDIR not in ast.unparse(fns[tname])


# ---- K3: exclusions are limited ------------------------------------------------------------------------------
TOKENS = ['host', 'ip', 'cwd', 'homedir', 'tmpdir', 'user']


def k3_exclusions(flags: List[List[bool]], dated: int, diffed: List[bool]) -> bool:
    """
    pre: 1 <= len(flags) <= P['nl'] and all(len(f) == len(TOKENS) for f in flags)
    pre: len(diffed) == len(flags)
    pre: -1 <= dated < len(flags)
    pre: all(not any(f[P['ntok']:]) for f in flags)
    post: __return__
    """
    g = _fresh()
    g.host, g.ip_address, g.user, g.homedir, g.tmpdir = 'hostx', '10.1.2.3', 'alice', '/home/alice', '/tmp/gt'
    g.cwd = '/cwd'
    g.min_time = datetime.datetime(2024, 1, 1)
    g.max_time = datetime.datetime(2024, 1, 5)
    specifics = {}
    for i, f in enumerate(flags):
        line = 'line %d' % i
        datelike = None
        if i == dated:
            line = 'on 2024-01-03 ok'
            datelike = g.is_date_like(line, plausible=True)
        s = Specifics(line, f[0], f[1], f[2], f[3], f[4], f[5], datelike, False)
        if diffed[i]:
            s.rex_inputs = (line, line + 'x')       # this line differed between the two runs
        specifics[i + 1] = s
    import io
    import contextlib
    with contextlib.redirect_stdout(io.StringIO()):
        g.update_exclusions_with_specifics('STDOUT', (specifics, [], []))
    rexes, removals, substrings = g.exclusions['STDOUT']
    if rexes != [] or removals != []:
        return False            # repeatable command: nothing differed, fewer than 5 date variants
    allowed = {'host': g.host, 'ip': g.ip_address, 'cwd': g.cwd, 'user': g.user, 'tmpdir': g.tmpdir}
    want = set()
    for k, tok in allowed.items():
        j = TOKENS.index(k)
        if any(f[j] and not d for f, d in zip(flags, diffed)):
            want.add(tok)
    if dated >= 0:
        want.add('2024-01-03')
    return set(substrings) == want


def _obs():
    obs = []
    obs.append(Ob('K1', 'k1_names', 'test names generated for output files are pairwise distinct identifiers and never '
                  'one of the fixed test names, so no definition replaces another',
                  '3 basenames: every string len 1..2, 1..2 and 1 over the C11 file-name alphabet (same obligation as C11-K2)',
                  timeout=400))
    obs.append(Ob('K2', 'k2_script_structure', 'the script written by the real write_script has exactly one test per '
                  'checked stream and per reference file plus the exit-code and exception tests, no duplicate '
                  'definitions; each calls exactly one assert{String,TextFile,BinaryFile}Correct whose first argument '
                  'is the actual side and whose second is the same-named file under refdir, with exclusion keywords '
                  'only when exclusions exist; generated_files lists every output and setUpClass removes them',
                  'check_stdout/check_stderr symbolic; presence of %d output files (text, binary, nested, one named '
                  '"stdout"); exclusions present symbolic for stdout and the first file; exit status 0 or 3' % len(FILES),
                  timeout=900, stubs=['fakefs', 'FileType -> text/binary flag chosen by the harness']))
    obs.append(Ob('K2', 'k2_tmpdir_file', 'an output file under gentest\'s $TMPDIR is looked for under self.tmpdir (taken '
                  'from the environment when the test runs), never at its generation-time path, and compared with '
                  'the same-named reference', 'text or binary file under $TMPDIR, with or without a second output in '
                  'the working directory', timeout=120, stubs=['fakefs', 'FileType -> flag chosen by the harness']))
    for nl, ntok, tier, to in ((1, 6, 'quick', 600), (2, 2, 'quick', 600), (2, 6, 'thorough', 3000),
                               (3, 3, 'thorough', 3000)):
        obs.append(Ob('K3', 'k3_exclusions', 'for a repeatable command the exclusions derived from over-specific '
                      'tokens are exactly: the host/ip/cwd/user/tmpdir strings that occur on some line that did not '
                      'differ between runs, and the plausible dates found; no patterns, no removals',
                      '<=%d output lines, the first %d of the 6 token flags symbolic per line, optional dated line, '
                      'per-line "differed" flag' % (nl, ntok), param={'nl': nl, 'ntok': ntok}, timeout=to, tier=tier))
    obs.append(Ob('K4', 'k4_binary', 'a binary output file that differs from its reference in any byte (or in length) '
                  'fails its test (same obligation as C15-K1)', 'two symbolic byte strings of length <=3', timeout=300,
                  stubs=['fakefs']))
    return obs


def k4_binary(a: List[int], b: List[int]) -> bool:
    """
    pre: len(a) <= 3 and len(b) <= 3
    pre: all(0 <= x <= 255 for x in a) and all(0 <= x <= 255 for x in b)
    post: __return__
    """
    from vp.harness import C15
    return C15.binary_body(a, b)


def k1_names(i1: List[int], i2: List[int], i3: List[int]) -> bool:
    """
    pre: C11._idx_ok(i1, 2, C11.FILE_ALPHABET, 1) and C11._idx_ok(i2, 2, C11.FILE_ALPHABET, 1)
    pre: C11._idx_ok(i3, 1, C11.FILE_ALPHABET, 1)
    post: __return__
    """
    return C11.test_names_body(i1, i2, i3)


from vp.harness import C11      # noqa: E402  (k1 reuses the C11-K2 obligation body)
C11.P.setdefault('n', 2)
OBLIGATIONS = _obs()
ASSUMPTIONS = ['composition: with K1-K3, C04-K1/K4 (any unexcused difference or missing file fails) and C15-K1 (binary) '
               'give the property for outputs whose changed line holds no machine/time token',
               'state a run would have produced is constructed directly after the real constructor (iterations=0)']
OUTSIDE = ['running the command, mutating its outputs and re-running the generated script (subprocess experiment)']
