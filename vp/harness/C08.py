"""C08 - database discovery is sound and database verification notices violating rows."""
from collections import OrderedDict
from typing import List, Optional

from vp.ob import Ob
from vp import rt
from vp.doubles.sqldouble import FakeConnection, FakeDB, _tokens, SQLDoubleError

import tdda.rexpy.rexpy as rx
import tdda.constraints.db.constraints as dbc
from tdda.constraints.db.drivers import SQLDatabaseHandler, regex_matcher
from tdda.constraints.db.constraints import (DatabaseConstraintDiscoverer, DatabaseConstraintVerifier,
                                             DatabaseVerification)
from tdda.constraints.base import DatasetConstraints, native_definite

P = rt.param({})


class _Capture(SQLDatabaseHandler):
    def __init__(self):
        self.dbtype = 'sqlite'
        self.sql = []

    def execute_scalar(self, sql):
        self.sql.append(sql)
        return 0

    def execute_all(self, sql):
        self.sql.append(sql)
        return []


# ---- K1: the SQL text is well formed whatever the content -------------------------------------------------
IDENT_ALPHABET = 'a"\' ]`%'


def _shape(build, probe):
    """the statement the code emits for a benign probe value, split around that value: (prefix, suffix)"""
    sql0 = build(probe)
    i = sql0.index(probe)
    return sql0[:i], sql0[i + len(probe):]


def k1_rex_literal(r: str) -> bool:
    """
    pre: len(r) <= P['n']
    post: __return__
    """
    def build(x):
        h = _Capture()
        h.get_database_rex_match('t', 'c', [x, 'zz'])
        return h.sql[-1]
    prefix, suffix = _shape(build, 'PROBE')
    # the statement for r must be the same statement with r as a standard SQL string literal in that place
    # (quotes doubled), i.e. r can neither end the literal early nor change the rest of the query
    return prefix.endswith("'") and suffix.startswith("'") and build(r) == prefix + r.replace("'", "''") + suffix


def k1_identifier(col: str, which: int) -> bool:
    """
    pre: 1 <= len(col) <= P['n'] and which == P['which']
    pre: all(ch in IDENT_ALPHABET for ch in col)
    post: __return__
    """
    for k in range(7):
        if which == k:
            which = k
            break
    names = ['get_database_nnull', 'get_database_nnonnull', 'get_database_nunique', 'get_database_unique_values',
             'get_database_min_length', 'get_database_max_length', 'get_database_rex_match']

    def build(x):
        h = _Capture()
        fn = getattr(h, names[which])
        if which == 6:
            fn('t', x, ['^a$'])
        else:
            fn('t', x)
        return h.sql[-1]
    sql0 = build('PROBE')
    if '"PROBE"' not in sql0:
        return False
    # every occurrence of the name is a quoted identifier with embedded quotes doubled
    parts = sql0.split('"PROBE"')
    q = '"' + col.replace('"', '""') + '"'
    want = parts[0]
    for part in parts[1:]:
        want = want + q + part
    return build(col) == want


# ---- K2: closure and single-row sensitivity ----------------------------------------------------------------
def _match_all(values, seed=None, **kw):
    # matches every string by construction ([\s\S]* has no '.'/'$' corner cases around newlines)
    return ['[\\s\\S]*'] if list(values) else []


def _disco_verify(sqltype, vals, extra, inc_rex, via_dict):
    """discover on vals, verify on vals (+ extra row when given) -> (constraints dict, fields verdicts)"""
    saved = (dbc.rexpy.extract, rx.extract)
    dbc.rexpy.extract = _match_all
    rx.extract = _match_all
    try:
        conn = FakeConnection('t', OrderedDict([('c', (sqltype, list(vals)))]), regexp=regex_matcher)
        cons = DatabaseConstraintDiscoverer('sqlite', FakeDB(conn), 't', inc_rex=inc_rex).discover()
        if cons is None:
            return None, None
        d = cons.to_dict()['fields'].get('c')
        if via_dict:
            c2 = DatasetConstraints()
            c2.initialize_from_dict(native_definite(cons.to_dict()))
            cons = c2
        conn2 = FakeConnection('t', OrderedDict([('c', (sqltype, list(vals) + list(extra)))]), regexp=regex_matcher)
        # epsilon 0 as an int: the default 0.0 would send symbolic ints through float multiplication
        # (fuzzy arithmetic is C02-K2's subject, by direct z3)
        ver = DatabaseConstraintVerifier('sqlite', FakeDB(conn2), 't', testing=True, epsilon=0)
        r = ver.verify(cons, VerificationClass=DatabaseVerification)
    finally:
        dbc.rexpy.extract, rx.extract = saved
    return d, r


def k2_closure_int(vals: List[Optional[int]], via_dict: bool) -> bool:
    """
    pre: len(vals) <= P['rows']
    post: __return__
    """
    d, r = _disco_verify('INTEGER', vals, [], False, via_dict)
    return r is None or (r.failures == 0 and all(bool(v) for v in r.fields['c'].values()))


@rt.known_class('C08.nul-text-length')
def _k_nul(vals, *rest):
    return any(v is not None and '\x00' in v for v in vals)


def k2_closure_text(vals: List[Optional[str]], inc_rex: bool, via_dict: bool) -> bool:
    """
    pre: len(vals) <= P['rows'] and all(v is None or len(v) <= P['nc'] for v in vals)
    pre: rt.admit(['C08.nul-text-length'], vals)
    post: __return__
    """
    d, r = _disco_verify('TEXT', vals, [], inc_rex, via_dict)
    return r is None or (r.failures == 0 and all(bool(v) for v in r.fields['c'].values()))


def k2_closure_bool(vals: List[Optional[bool]]) -> bool:
    """
    pre: len(vals) <= P['rows']
    post: __return__
    """
    d, r = _disco_verify('BOOLEAN', [None if v is None else int(v) for v in vals], [], False, False)
    return r is None or (r.failures == 0 and all(bool(v) for v in r.fields['c'].values()))


def k2_extra_row_int(vals: List[Optional[int]], x: Optional[int]) -> bool:
    """
    pre: 1 <= len(vals) <= P['rows']
    pre: all(v is None or -2 <= v <= 2 for v in vals) and (x is None or -3 <= x <= 3)
    post: __return__
    """
    d, r = _disco_verify('INTEGER', vals, [x], False, False)
    if r is None:
        return True
    nn = [v for v in vals if v is not None]
    got = {k: bool(v) for k, v in r.fields['c'].items()}
    want = {}
    for k, val in d.items():
        if k == 'type':
            want[k] = True
        elif k == 'min':
            want[k] = x is None or x >= val
        elif k == 'max':
            want[k] = x is None or x <= val
        elif k == 'sign':
            ok = {'positive': lambda z: z > 0, 'non-negative': lambda z: z >= 0, 'zero': lambda z: z == 0,
                  'non-positive': lambda z: z <= 0, 'negative': lambda z: z < 0, 'null': lambda z: False}[val]
            want[k] = x is None or ok(x)
        elif k == 'max_nulls':
            want[k] = (len(vals) - len(nn) + (1 if x is None else 0)) <= val
        elif k == 'no_duplicates':
            want[k] = x is None or all(x != v for v in nn)
    return got == want


def k2_extra_row_bool(vals: List[Optional[bool]], x: Optional[bool]) -> bool:
    """
    pre: 1 <= len(vals) <= P['rows']
    post: __return__
    """
    iv = [None if v is None else int(v) for v in vals]
    d, r = _disco_verify('BOOLEAN', iv, [None if x is None else int(x)], False, False)
    if r is None:
        return True
    nn = [v for v in iv if v is not None]
    got = {k: bool(v) for k, v in r.fields['c'].items()}
    want = {}
    xi = None if x is None else int(x)
    for k, val in d.items():
        if k == 'type':
            want[k] = True
        elif k == 'min':
            want[k] = xi is None or xi >= int(val)
        elif k == 'max':
            want[k] = xi is None or xi <= int(val)
        elif k == 'sign':
            ok = {'positive': lambda z: z > 0, 'non-negative': lambda z: z >= 0, 'zero': lambda z: z == 0,
                  'non-positive': lambda z: z <= 0, 'negative': lambda z: z < 0, 'null': lambda z: False}[val]
            want[k] = xi is None or ok(xi)
        elif k == 'max_nulls':
            want[k] = (len(iv) - len(nn) + (1 if xi is None else 0)) <= val
    return got == want


def k2_extra_row_text(vals: List[Optional[str]], x: Optional[str]) -> bool:
    """
    pre: 1 <= len(vals) <= P['rows'] and all(v is None or len(v) <= 1 for v in vals)
    pre: x is None or len(x) <= 2
    pre: rt.admit(['C08.nul-text-length'], list(vals) + [x])
    post: __return__
    """
    d, r = _disco_verify('TEXT', vals, [x], False, False)
    if r is None:
        return True
    nn = [v for v in vals if v is not None]
    got = {k: bool(v) for k, v in r.fields['c'].items()}
    want = {}
    for k, val in d.items():
        if k == 'type':
            want[k] = True
        elif k == 'min_length':
            want[k] = x is None or len(x) >= val
        elif k == 'max_length':
            want[k] = x is None or len(x) <= val
        elif k == 'max_nulls':
            want[k] = (len(vals) - len(nn) + (1 if x is None else 0)) <= val
        elif k == 'no_duplicates':
            want[k] = x is None or all(x != v for v in nn)
        elif k == 'allowed_values':
            want[k] = x is None or any(x == v for v in val)
    return got == want


def k2_extra_row_rex(x: Optional[str], which: int) -> bool:
    """
    pre: (x is None or len(x) <= 2) and 0 <= which < 3
    post: __return__
    """
    # a string no expression matches makes the rex constraint fail (real expressions, concrete menu)
    menu = [['^a+$'], ["^it's$", '^b$'], []]
    for k in range(3):
        if which == k:
            which = k
            break
    conn = FakeConnection('t', OrderedDict([('c', ('TEXT', ['a', x]))]), regexp=regex_matcher)
    ver = DatabaseConstraintVerifier('sqlite', FakeDB(conn), 't', testing=True)
    from tdda.constraints.base import RexConstraint
    got = bool(ver.verify_rex_constraint('c', RexConstraint(menu[which])))
    refs = [lambda s: len(s) >= 1 and all(ch == 'a' for ch in s), lambda s: s == "it's" or s == 'b',
            lambda s: False]
    want = refs[which]('a') and (x is None or refs[which](x))
    return got == want


# ---- K3: regex_matcher --------------------------------------------------------------------------------------
def k3_regex_matcher(item: Optional[str]) -> bool:
    """
    pre: item is None or len(item) <= 3
    post: __return__
    """
    got = regex_matcher('^ab?$', item)
    want = item is not None and (item == 'a' or item == 'ab')
    return got == want


def _obs():
    obs = []
    Q, T = 'quick', 'thorough'
    for n, tier, to in ((2, Q, 300), (3, T, 2400)):
        obs.append(Ob('K1', 'k1_rex_literal', 'the SQL emitted for a rex check is the probe statement with the expression as a standard SQL '
                      'string literal (quotes doubled): it cannot end the literal early or alter the query',
                      'expression text: any string len<=%d' % n,
                      param={'n': n}, timeout=to, tier=tier, stubs=['execute_scalar captured; statement shape read off the code with a probe value']))
        for which in range(7):
            obs.append(Ob('K1', 'k1_identifier', 'every statistic query is the probe statement with the column name '
                          'as a quoted identifier (embedded quotes doubled)',
                          'column name: any string len 1..%d over the alphabet %r (the %%-formatting of the statement '
                          'realises the name); query builder #%d' % (n, IDENT_ALPHABET, which),
                          param={'n': n, 'which': which}, timeout=to, tier=tier,
                          stubs=['execute_* captured; statement shape read off the code with a probe value']))
    for rows, tier, to in ((3, Q, 300), (4, T, 2400)):
        obs.append(Ob('K2', 'k2_closure_int', 'constraints discovered from an INTEGER column verify against the same '
                      'column with no failure and no error', '<=%d rows, ANY ints/NULLs; in memory or through the '
                      'dict form' % rows, param={'rows': rows}, timeout=to, tier=tier, stubs=['sqldouble']))
        obs.append(Ob('K2', 'k2_closure_bool', 'constraints discovered from a BOOLEAN column verify against it',
                      '<=%d rows of 0/1/NULL' % rows, param={'rows': rows}, timeout=to, tier=tier,
                      stubs=['sqldouble']))
    for rows, nc, tier, to in ((2, 2, Q, 400), (3, 2, T, 3000)):
        obs.append(Ob('K2', 'k2_closure_text', 'constraints discovered from a TEXT column (with or without rex) verify '
                      'against it, empty and all-NULL columns and any text content included',
                      '<=%d rows of symbolic strings len<=%d or NULL' % (rows, nc), param={'rows': rows, 'nc': nc},
                      timeout=to, tier=tier, known=['C08.nul-text-length'],
                      stubs=['sqldouble', 'rexpy.extract -> expressions that match by assumption (C03)']))
    for rows, tier, to in ((2, Q, 400), (3, T, 3000)):
        obs.append(Ob('K2', 'k2_extra_row_int', 'after discovery, one added row makes verification report a discovered '
                      'constraint failed exactly when the row breaks it by the documented meaning',
                      'INTEGER column of 1..%d rows of ints -2..2 or NULL + one extra value -3..3 or NULL' % rows, param={'rows': rows},
                      timeout=to, tier=tier, stubs=['sqldouble']))
    for rows, tier, to in ((2, Q, 400), (3, T, 3000)):
        obs.append(Ob('K2', 'k2_extra_row_text', 'after discovery, one added row makes verification report a discovered '
                      'constraint failed exactly when the row breaks it (shorter/longer string, new category, '
                      'duplicate, extra null)', 'TEXT column of 1..%d rows of strings len<=1 + one extra string len<=2 '
                      'or NULL' % rows, param={'rows': rows}, timeout=to, tier=tier, stubs=['sqldouble'],
                      known=['C08.nul-text-length']))
    obs.append(Ob('K2', 'k2_extra_row_bool', 'after discovery on a BOOLEAN column, one added row makes verification '
                  'report min/max/sign/max_nulls failed exactly when the row breaks them',
                  'BOOLEAN column of 1..3 rows of 0/1/NULL + one extra value', param={'rows': 3}, timeout=400,
                  stubs=['sqldouble']))
    obs.append(Ob('K2', 'k2_extra_row_rex', 'a row holding a string that no expression matches makes the rex '
                  'constraint fail (and only then)', '3 concrete expression lists (one with a quote, one empty); extra '
                  'string any text len<=2 or NULL', timeout=300, stubs=['sqldouble']))
    obs.append(Ob('K3', 'k3_regex_matcher', 'the REGEXP callback: NULL never matches; otherwise re.match semantics',
                  'item: any string len<=3 or None', timeout=120))
    return obs


PREFLIGHT = ['vp.doubles.sqldouble:sql_conformance']
OBLIGATIONS = _obs()
ASSUMPTIONS = ['sqldouble contract (vp/doubles/sqldouble.py): the SQLite semantics of the ~10 statement forms tdda '
               'emits, checked against the real sqlite3 module by the conformance pass']
OUTSIDE = ['what SQLite itself computes beyond the conformance pass (type affinity, collations)', 'date/datetime columns',
           'databases other than SQLite']
