"""C05 - DataFrame comparison passes exactly when the checked structure and values agree."""
from typing import List, Optional

import numpy as np
import pandas as pd

from vp.ob import Ob
from vp import rt

import tdda.referencetest.checkpandas as cp
import tdda.referencetest.basecomparison as bcmp
from tdda.referencetest.checkpandas import PandasComparison, types_match, loosen_type, resolve_option_flag

P = rt.param({})
NAMES = ['a', 'b', 'c']
DTYPES = [np.dtype('int64'), np.dtype('float64'), np.dtype('O'), np.dtype(bool), pd.StringDtype(), pd.Int64Dtype(),
          np.dtype('datetime64[ns]'), np.dtype('int32'), pd.BooleanDtype(), np.dtype('float32')]
FLOATS = [1.0, 1.0000004, 1.2, 1.4, -0.5, 2.5]


def _c(i, n):
    for k in range(n):
        if i == k:
            return k
    return n - 1


class DoubleUnsupported(AttributeError):
    pass


class CSeries:
    def __init__(self, vals, dtype):
        self.vals = list(vals)
        self.dtype = dtype

    def __getattr__(self, name):
        if name.startswith('__'):
            raise AttributeError(name)
        raise DoubleUnsupported('the frame double has no Series.%s' % name)


class Mask(list):
    pass


class CFrame:
    """ordered columns (name -> CSeries); only what check_dataframe uses; contract: pandas semantics of
    list(df), in, [], len, shape, round, reset_index, equals (element-wise, null == null), sort_values, mask"""
    def __init__(self, names, series):
        self.names = list(names)
        self.cols = dict(zip(names, series))
        self.n = len(series[0].vals) if series else 0
        self._n_given = None

    def __iter__(self):
        return iter(self.names)

    def __contains__(self, c):
        return c in self.names

    def __len__(self):
        return self.n

    @property
    def shape(self):
        return (self.n, len(self.names))

    def __getitem__(self, key):
        if isinstance(key, list) and not isinstance(key, Mask):
            return CFrame(list(key), [self.cols[k] for k in key])
        if isinstance(key, Mask):           # boolean mask
            keep = [i for i, k in enumerate(key) if k]
            return CFrame(self.names, [CSeries([self.cols[c].vals[i] for i in keep], self.cols[c].dtype)
                                       for c in self.names])
        return self.cols[key]

    def reindex(self):
        return self

    def round(self, p):
        def r(v):
            return round(v, p) if isinstance(v, float) else v
        return CFrame(self.names, [CSeries([r(v) for v in self.cols[c].vals], self.cols[c].dtype)
                                   for c in self.names])

    def reset_index(self, drop=False):
        return self

    def equals(self, other):
        if self.names != other.names or self.n != other.n:
            return False
        for c in self.names:
            if self.cols[c].dtype != other.cols[c].dtype:
                return False
            for x, y in zip(self.cols[c].vals, other.cols[c].vals):
                if x is None or y is None:
                    if not (x is None and y is None):
                        return False
                elif x != y:
                    return False
        return True

    def sort_values(self, by, inplace=False):
        for b in by:
            if b not in self.names:
                raise KeyError(b)
        idx = list(range(self.n))
        # insertion sort on the key tuple (nulls last, as pandas does)
        out = []
        for i in idx:
            j = 0
            while j < len(out) and not self._less(i, out[j], by):
                j += 1
            out.insert(j, i)
        for c in self.names:
            self.cols[c] = CSeries([self.cols[c].vals[i] for i in out], self.cols[c].dtype)

    def _less(self, i, j, by):
        for b in by:
            x, y = self.cols[b].vals[i], self.cols[b].vals[j]
            if x is None and y is None:
                continue
            if x is None:
                return False
            if y is None:
                return True
            if x < y:
                return True
            if x > y:
                return False
        return False

    def __getattr__(self, name):
        if name.startswith('__'):
            raise AttributeError(name)
        raise DoubleUnsupported('the frame double has no DataFrame.%s' % name)


def _diffs_stub(df, ref_df):
    """stands in for same_structure_dataframe_diffs (per-column masks on real pandas): counts differing cells"""
    n = 0
    for c in df.names:
        for x, y in zip(df.cols[c].vals, ref_df.cols[c].vals):
            if not ((x is None and y is None) or (x is not None and y is not None and x == y)):
                n += 1

    class D:
        n_diff_values = n

        def __str__(self):
            return 'diffs'
    return D()


def _frame(name_idx, dt_idx, rows):
    names = [NAMES[_c(i, 3)] for i in name_idx]
    series = [CSeries([r[k] for r in rows], DTYPES[_c(d, len(DTYPES))]) for k, d in enumerate(dt_idx)]
    return CFrame(names, series)


def _check(df, ref, **kw):
    saved = (cp.same_structure_dataframe_diffs, cp.replace_cats)
    cp.same_structure_dataframe_diffs = _diffs_stub
    cp.replace_cats = lambda d: d            # no categorical columns in the double
    try:
        pc = PandasComparison(verbose=False, tmp_dir='/nonexistent')
        return pc.check_dataframe(df, ref, create_temporaries=False, **kw)
    finally:
        cp.same_structure_dataframe_diffs, cp.replace_cats = saved


def _opt(flag, sub, names):
    """None / False / a list (symbolic subset of the three names)"""
    if flag == 0:
        return None
    if flag == 1:
        return False
    return [n for n, s in zip(NAMES, sub) if s]


# ---- K1: structure ---------------------------------------------------------------------------------------
def k1_structure(n1: List[int], d1: List[int], n2: List[int], d2: List[int], ct: int, co: int, ce: int,
                 sub: List[bool], sub_t: List[bool], sub_e: List[bool], tm: int) -> bool:
    """
    pre: 1 <= len(n1) <= P['ncol'] and len(d1) == len(n1) and 1 <= len(n2) <= P['ncol'] and len(d2) == len(n2)
    pre: all(0 <= x < P['nnames'] for x in n1 + n2) and all(0 <= x < P['ndt'] for x in d1 + d2)
    pre: all(n1[i] != n1[j] for i in range(len(n1)) for j in range(i)) and all(n2[i] != n2[j] for i in range(len(n2)) for j in range(i))
    pre: 0 <= ct < 3 and 0 <= co < 3 and 0 <= ce < 3 and len(sub) == 3 and 0 <= tm < 3
    pre: len(sub_t) == 3 and len(sub_e) == 3
    pre: all((not sub_t[k]) or (k in n2) for k in range(3)) and all((not sub_e[k]) or (k in n1) for k in range(3))
    pre: ct == P['ct'] and co == P['co'] and ce == P['ce']
    pre: (ct == 2 or not any(sub_t)) and (ce == 2 or not any(sub_e)) and (co == 2 or not any(sub))
    pre: not any(sub[P['nnames']:]) and not any(sub_t[P['nnames']:]) and not any(sub_e[P['nnames']:])
    post: __return__
    """
    df = _frame(n1, d1, [])
    ref = _frame(n2, d2, [])
    level = [None, 'medium', 'permissive'][_c(tm, 3)]
    ct, co, ce = _c(ct, 3), _c(co, 3), _c(ce, 3)
    # (a check_types list names reference columns, a check_extra_cols list names actual columns)
    r = _check(df, ref, check_types=_opt(ct, sub_t, NAMES), check_order=_opt(co, sub, NAMES),
               check_extra_cols=_opt(ce, sub_e, NAMES), check_data=False, type_matching=level)
    A = dict(zip(df.names, [df.cols[c].dtype for c in df.names]))
    R = dict(zip(ref.names, [ref.cols[c].dtype for c in ref.names]))
    sel = [n for n, s in zip(NAMES, sub) if s]
    types_cols = list(ref.names) if ct == 0 else [] if ct == 1 else [n for n, s in zip(NAMES, sub_t) if s]
    extra_cols = list(df.names) if ce == 0 else [] if ce == 1 else [n for n, s in zip(NAMES, sub_e) if s]
    order_cols = list(ref.names) if co == 0 else [] if co == 1 else sel
    want = True
    missing = [c for c in types_cols if c not in A]
    if missing:
        want = False
    for c in types_cols:
        if c in A and c in R and not types_match(A[c], R[c], level):
            want = False
    if any(c not in R for c in extra_cols):
        want = False
    if co != 1 and not missing:
        o1 = [c for c in df.names if c in order_cols and c in R]
        o2 = [c for c in ref.names if c in order_cols and c in A]
        if o1 != o2:
            want = False
    return (r.failures == 0) == want


def k1_data_columns(n1: List[int], n2: List[int], ct: int, cd: int, co: int) -> bool:
    """
    pre: 1 <= len(n1) <= 2 and 1 <= len(n2) <= 2 and all(0 <= x < 3 for x in n1 + n2)
    pre: all(n1[i] != n1[j] for i in range(len(n1)) for j in range(i)) and all(n2[i] != n2[j] for i in range(len(n2)) for j in range(i))
    pre: 0 <= ct < 2 and 0 <= cd < 2 and 0 <= co < 2
    post: __return__
    """
    # a column of the reference that the actual frame lacks (e.g. a renamed column) is a difference for every kind
    # of check it is selected for - also when only the values are checked - and is reported, not raised
    df = _frame(n1, [0] * len(n1), [])
    ref = _frame(n2, [0] * len(n2), [])
    ct, cd, co = _c(ct, 2), _c(cd, 2), _c(co, 2)
    r = _check(df, ref, check_types=_opt(ct, None, NAMES), check_data=_opt(cd, None, NAMES),
               check_order=_opt(co, None, NAMES), check_extra_cols=False)
    missing = [c for c in ref.names if c not in df.names]
    want = True
    if missing and (ct == 0 or cd == 0):
        want = False
    if co == 0 and not missing:
        if [c for c in df.names if c in ref.names] != [c for c in ref.names if c in df.names]:
            want = False
    return (r.failures == 0) == want


# ---- K2: values --------------------------------------------------------------------------------------------
def _part_ok(part, a, b, fa, fb, precision):
    if part == 'ints':      # the float column constant, precision default
        return all(i == 0 for i in fa + fb) and precision == -1
    # 'floats': one row, the int column constant
    return len(a) <= 1 and all(v == 0 for v in a + b)


def k2_values(a: List[Optional[int]], b: List[Optional[int]], fa: List[int], fb: List[int], precision: int,
              cd: int, mutate_row: int) -> bool:
    """
    pre: len(a) <= P['rows'] and len(b) == len(a) and len(fa) == len(a) and len(fb) == len(a)
    pre: all(0 <= i < len(FLOATS) for i in fa + fb) and -1 <= precision <= 6 and 0 <= cd < 3
    pre: _part_ok(P['part'], a, b, fa, fb, precision)
    post: __return__
    """
    # two frames with columns i (ints/nulls) and x (floats from a menu); same structure; values symbolic
    fva = [FLOATS[_c(i, len(FLOATS))] for i in fa]
    fvb = [FLOATS[_c(i, len(FLOATS))] for i in fb]
    prec = None if precision < 0 else _c(precision, 7)
    df = CFrame(['i', 'x'], [CSeries(a, DTYPES[0]), CSeries(fva, DTYPES[1])])
    ref = CFrame(['i', 'x'], [CSeries(b, DTYPES[0]), CSeries(fvb, DTYPES[1])])
    cd = _c(cd, 3)
    check_data = [None, False, ['x']][cd]
    r = _check(df, ref, check_data=check_data, precision=prec)
    p = 6 if prec is None else prec
    cols = ['i', 'x'] if cd == 0 else [] if cd == 1 else ['x']
    want = True
    if 'i' in cols:
        for x, y in zip(a, b):
            if not ((x is None and y is None) or (x is not None and y is not None and x == y)):
                want = False
    if 'x' in cols:
        for x, y in zip(fva, fvb):
            if round(x, p) != round(y, p):
                want = False
    return (r.failures == 0) == want


def k2_precision_is_per_call(fa: List[int], fb: List[int], p1: int, p2: int) -> bool:
    """
    pre: len(fa) == 1 and len(fb) == 1 and all(0 <= i < len(FLOATS) for i in fa + fb)
    pre: 0 <= p1 < 4 and 0 <= p2 < 4
    post: __return__
    """
    # one comparison object (a ReferenceTest keeps one for all its assertions): the precision given to one call
    # does not carry over to the next
    fva = [FLOATS[_c(i, len(FLOATS))] for i in fa]
    fvb = [FLOATS[_c(i, len(FLOATS))] for i in fb]
    saved = (cp.same_structure_dataframe_diffs, cp.replace_cats)
    cp.same_structure_dataframe_diffs = _diffs_stub
    cp.replace_cats = lambda d: d
    try:
        pc = PandasComparison(verbose=False, tmp_dir='/nonexistent')
        out = []
        for pr in (p1, p2):
            prec = [None, 0, 1, 3][_c(pr, 4)]
            df = CFrame(['x'], [CSeries(fva, DTYPES[1])])
            ref = CFrame(['x'], [CSeries(fvb, DTYPES[1])])
            r = pc.check_dataframe(df, ref, create_temporaries=False, precision=prec)
            p = 6 if prec is None else prec
            want = all(round(x, p) == round(y, p) for x, y in zip(fva, fvb))
            out.append((r.failures == 0) == want)
    finally:
        cp.same_structure_dataframe_diffs, cp.replace_cats = saved
    return all(out)


def k2_rows_sort_condition(a: List[int], b: List[int], use_sort: bool, use_cond: bool, sort_missing: bool) -> bool:
    """
    pre: len(a) <= P['rows'] and len(b) <= P['rows']
    pre: all(0 <= v <= 3 for v in a + b)
    post: __return__
    """
    # a copy of a frame passes whatever the row order when sorted; different numbers of rows (after the
    # condition) always fail; sorting on a column the actual frame lacks is a failure, not an internal error
    df = CFrame(['k'], [CSeries(a, DTYPES[0])]) if not sort_missing else CFrame(['z'], [CSeries(a, DTYPES[0])])
    ref = CFrame(['k'], [CSeries(b, DTYPES[0])])
    cond = (lambda d: Mask([v >= 2 for v in d['k' if 'k' in d else 'z'].vals])) if use_cond else None
    r = _check(df, ref, sortby=['k'] if (use_sort or sort_missing) else None, condition=cond,
               check_extra_cols=False if sort_missing else None)
    if sort_missing:
        return r.failures == 1
    sa = [v for v in a if (not use_cond or v >= 2)]
    sb = [v for v in b if (not use_cond or v >= 2)]
    if use_sort:
        sa, sb = sorted(sa), sorted(sb)
    return (r.failures == 0) == (sa == sb)


# ---- K3: type matching -----------------------------------------------------------------------------------------
def k3_types(i: int, j: int, k: int) -> bool:
    """
    pre: 0 <= i < len(DTYPES) and 0 <= j < len(DTYPES) and 0 <= k < len(DTYPES)
    post: __return__
    """
    t1, t2 = DTYPES[_c(i, len(DTYPES))], DTYPES[_c(j, len(DTYPES))]
    s = types_match(t1, t2, 'strict')
    s0 = types_match(t1, t2, None)
    m = types_match(t1, t2, 'medium')
    p = types_match(t1, t2, 'permissive')
    if s != (t1.name == t2.name) or s0 != s:
        return False                            # strict <=> equal names (None means strict)
    if not (types_match(t1, t1, 'strict') and types_match(t1, t1, 'medium') and types_match(t1, t1, 'permissive')):
        return False                            # reflexive
    for level in ('strict', 'medium', 'permissive'):
        if types_match(t1, t2, level) != types_match(t2, t1, level):
            return False                        # symmetric
    if (s and not m) or (m and not p):
        return False                            # strict => medium => permissive
    return True


def k4_option_flag(flag: int, sub: List[bool]) -> bool:
    """
    pre: 0 <= flag < 5 and len(sub) == 3
    post: __return__
    """
    df = CFrame(NAMES, [CSeries([], DTYPES[0]) for _ in NAMES])
    sel = [n for n, s in zip(NAMES, sub) if s]
    flag = _c(flag, 5)
    arg = [None, True, False, sel, (lambda d: sel)][flag]
    got = resolve_option_flag(arg, df)
    want = NAMES if flag in (0, 1) else [] if flag == 2 else sel
    return list(got) == list(want)


def _obs():
    obs = []
    Q, T = 'quick', 'thorough'
    obs.append(Ob('K2', 'k2_precision_is_per_call', 'two successive comparisons on ONE comparison object: each is decided '
                  'by its own precision argument (default 6), never by the previous call\'s',
                  'one row of floats from a menu of %d; precision None / 0 / 1 / 3 for each call' % len(FLOATS),
                  timeout=400, stubs=['CFrame', 'same_structure_dataframe_diffs -> cell counter']))
    obs.append(Ob('K1', 'k1_data_columns', 'a reference column the actual frame lacks (a renamed column) fails every '
                  'kind of check it is selected for, the value check included, as a reported difference and never as '
                  'an internal error', 'actual and reference: 1..2 columns over 3 names (symbolic indexes), no rows; '
                  'check_types None/False, check_data None/False, check_order None/False; check_extra_cols off',
                  timeout=300, stubs=['CFrame', 'same_structure_dataframe_diffs -> cell counter']))
    what = ('check_dataframe passes exactly when: every type-checked column of the reference exists with a matching '
            'type at the requested level, no extra-checked column of the actual is absent from the reference, and the '
            'order-checked columns appear in the same relative order; it returns a FailureDiffs, never raises')
    quick_combos = [(0, 0, 0), (2, 0, 0), (0, 2, 0), (0, 0, 2), (1, 1, 1)]
    for ct in range(3):
        for co in range(3):
            for ce in range(3):
                thorough_combos = quick_combos + [(2, 2, 2), (1, 0, 2), (2, 1, 0), (0, 2, 1), (2, 0, 2)]
                tiers = ([Q] if (ct, co, ce) in quick_combos else []) + ([T] if (ct, co, ce) in thorough_combos else [])
                for tier in tiers:
                    nn, ndt = (2, 2) if tier == Q else (3, 4)
                    obs.append(Ob('K1', 'k1_structure', what,
                                  'actual and reference: 1..2 columns over %d names x %d dtypes (symbolic indexes); '
                                  'check_types %s, check_order %s, check_extra_cols %s (a list is a symbolic subset of '
                                  'the valid names); type_matching strict/medium/permissive symbolic'
                                  % (nn, ndt, ['None', 'False', 'list'][ct], ['None', 'False', 'list'][co],
                                     ['None', 'False', 'list'][ce]),
                                  param={'ncol': 2, 'nnames': nn, 'ndt': ndt, 'ct': ct, 'co': co, 'ce': ce},
                                  timeout=600 if tier == Q else 2400, tier='quickonly' if tier == Q else T,
                                  stubs=['CFrame (frame double)', 'replace_cats -> identity']))
    for rows, tier, to in ((2, Q, 600), (3, T, 3000)):
        for part in ('ints', 'floats'):
            obs.append(Ob('K2', 'k2_values', 'with identical structure the frames compare as correct exactly when '
                          'every pair of checked values is equal after rounding to the precision (None means 6), '
                          'nulls equal to nulls; check_data None / False / a list',
                          ('<=%d rows; an int column with ANY ints/nulls a side (float column constant)' % rows)
                          if part == 'ints' else
                          ('1 row; a float column from a %d-value menu a side; precision None or 0..6' % len(FLOATS)),
                          param={'rows': rows, 'part': part}, timeout=to, tier=tier,
                          stubs=['CFrame', 'same_structure_dataframe_diffs -> cell counter (real pandas masks '
                                 'outside)']))
        obs.append(Ob('K2', 'k2_rows_sort_condition', 'row count after the condition decides; with sortby, row order '
                      'does not; sortby naming a column the actual frame lacks is a failure, never an internal error',
                      'one int column of <=%d rows (values 0..3) a side; sortby, condition, missing sort column '
                      'symbolic' % rows, param={'rows': rows}, timeout=to, tier=tier, stubs=['CFrame']))
    obs.append(Ob('K3', 'k3_types', 'types_match: strict <=> equal names (None = strict); reflexive and symmetric at '
                  'every level; strict => medium => permissive', 'all pairs over %d real numpy/pandas dtype objects'
                  % len(DTYPES), timeout=300))
    obs.append(Ob('K4', 'k4_option_flag', 'resolve_option_flag: None/True => all columns, False => none, list => the '
                  'list, function => its result', '5 flag forms x symbolic subset of 3 names', timeout=120))
    return obs


OBLIGATIONS = _obs()
ASSUMPTIONS = ['CFrame contract: pandas semantics of the dozen DataFrame operations check_dataframe uses (no '
               'conformance pass: the operations are list/dict manipulations; rounding uses Python round on concrete '
               'floats)', 'the type-matching levels are not documented beyond strict: only their order-theoretic '
               'properties are checked (K3)']
OUTSIDE = ['DataFrame.equals / round / per-column difference masks on real pandas, categorical and extension-type '
           'values (the statement\'s own example - AttributeError on a differing value in a string/categorical '
           'column - lives there)', 'parquet/CSV entry points', 'the difference report text']
