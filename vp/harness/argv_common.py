"""Shared by C10-K1 and C19-K1: the real _set_flags_from_argv on symbolic argv."""
from typing import List

from tdda.referencetest.referencetest import ReferenceTest
from tdda.referencetest import referencetestcase as rtc

CLUSTER_ALPHABET = '10Wvqf'
WORDS = ['--tagged', '--istagged', '--write-all', '--W', '--wquiet', '-wquiet',
         'TestA', 'TestA.test_x', '--verbose', '--locals', '-k']
WRITE = ['-w', '--w', '--write']
KINDS = ['csv', 'graph', 'csv,graph', 'table']


def is_cluster(t):
    return (2 <= len(t) and t[0] == '-' and all(c in CLUSTER_ALPHABET for c in t[1:]))


def build(shape, clusters, widx):
    """shape: string over C (symbolic cluster) / W (menu word, symbolic index)"""
    args = []
    ci = wi = 0
    for ch in shape:
        if ch in '123':
            args.append(clusters[ci])
            ci += 1
        else:
            args.append(WORDS[widx[wi]])
            wi += 1
    return args


def shape_ok(shape, clusters, widx, maxlen):
    lens = [int(ch) + 1 for ch in shape if ch in '123']
    if len(clusters) != len(lens) or len(widx) != shape.count('W'):
        return False
    for c, n in zip(clusters, lens):
        if len(c) != n or c[0] != '-' or '-' in c[1:] or ' ' in c or 'w' in c:
            return False
    for i in widx:
        if not 0 <= i < len(WORDS):
            return False
    # long tdda options at most once; aliases of one option not both
    seen = [False] * 4          # tagged, istagged, write-all, wquiet
    for i in widx:
        g = (0 if i == 0 else 1 if i == 1 else 2 if i in (2, 3) else 3 if i in (4, 5) else -1)
        if g >= 0:
            if seen[g]:
                return False
            seen[g] = True
    return True


def well_formed(args, maxlen):
    """tokens are single-dash clusters over CLUSTER_ALPHABET (len <= maxlen) or menu words;
    long tdda options occur at most once (the documented usage)."""
    for t in args:
        if not (t in WORDS or (is_cluster(t) and len(t) <= maxlen)):
            return False
    for w in WORDS[:6]:
        if args.count(w) > 1:
            return False
    if '--W' in args and '--write-all' in args:
        return False
    if '--wquiet' in args and '-wquiet' in args:
        return False
    return True


def oracle(args, kinds):
    """Documented meaning. returns (rest, tagged, check, regen_all, kinds)"""
    tagged = check = regen = False
    out = []
    for a in args:
        if a in ('--W', '--write-all'):
            regen = True
        elif a in ('-wquiet', '--wquiet'):
            pass
        elif a == '--tagged':
            tagged = True
        elif a == '--istagged':
            check = True
        elif a.startswith('-') and not a.startswith('--'):
            if '1' in a:
                tagged = True
            if '0' in a:
                check = True
            if 'W' in a:
                regen = True
            rest = a.replace('1', '').replace('0', '').replace('W', '')
            if rest != '-':
                out.append(rest)
        else:
            out.append(a)
    ks = []
    for k in kinds:
        ks.extend(k.split(','))
    return out, tagged, check, regen, ks


TAILS = [[], ['--write', 'csv'], ['-w', 'csv,graph', 'table'], ['--w', 'graph', 'csv']]


def run_real(args, tail):
    """-> (returned argv, tagged, check, regenerate table)"""
    ReferenceTest.regenerate = {}
    rtc.ReferenceTestCase.regenerate = ReferenceTest.regenerate
    kinds = tail[1:]
    argv = ['prog'] + list(args) + tail
    verbose = ReferenceTest.verbose
    try:
        out, tagged, check = rtc._set_flags_from_argv(argv)
    finally:
        ReferenceTest.verbose = verbose
    return out, tagged, check, dict(ReferenceTest.regenerate), kinds
