"""Shared tweaks for rexpy harnesses."""
import tdda.rexpy.rexpy as rx

_real_categories = rx.Categories
_cache = {}


def _cached_categories(extra_letters=None, full_escape=False, dialect=None):
    key = (extra_letters, bool(full_escape), dialect)
    c = _cache.get(key)
    if c is None:
        c = _cache[key] = _real_categories(extra_letters, full_escape=full_escape, dialect=dialect)
        c.build_cat_map()
    return c


def memoise_categories():
    """Categories(...) compiles ~40 regexes; under symbolic tracing that costs ~0.3 s per Extractor.
    It is a pure function of three concrete arguments and the object is never mutated after
    construction, so harnesses that build an Extractor per path share one instance per argument triple."""
    rx.Categories = _cached_categories
    # warm the common ones outside tracing
    for d in (None, 'portable'):
        _cached_categories(None, False, d)


def plain_ilist(L=None):
    # array('i').extend(generator) is mis-modelled by CrossHair 0.0.110 (TypeError: generator has no len());
    # a plain list has the same semantics for every use rexpy makes of it
    return list(L or [])
