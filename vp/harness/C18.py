"""C18 - rexpy coverage figures equal true match counts and account for all examples."""
from typing import List, Optional, Tuple

from vp.ob import Ob
from vp import rt

import tdda.rexpy.rexpy as rx
from tdda.rexpy.rexpy import (Extractor, Examples, matrices2incremental_coverage, rex_coverage,
                              coverage_matrices, terminate_patterns_and_sort, rex_full_incremental_coverage,
                              rex_incremental_coverage, Size, RE_FLAGS)
from vp.doubles.fakerandom import FakeRandom
from vp.harness import rexpy_common

P = rt.param({})
NPAT = P.get('npat', 2)
PATS = ['^p%d$' % i for i in range(4)]


# ---- K1: greedy incremental coverage on a symbolic match matrix ---------------------------
def k1_incremental(hits: List[List[bool]], freqs: List[int], dedup: bool) -> bool:
    """
    pre: 1 <= len(hits) <= P['nex'] and len(freqs) == len(hits)
    pre: all(len(r) == NPAT for r in hits)
    pre: all(1 <= f <= 3 for f in freqs)
    post: __return__
    """
    n = len(hits)
    matrix = [[f if h else 0 for h in row] for row, f in zip(hits, freqs)]
    ded = [[1 if h else 0 for h in row] for row in hits]
    ex = Examples(['s%d' % i for i in range(n)], list(freqs))
    pats = PATS[:NPAT]
    res = matrices2incremental_coverage(pats, [list(r) for r in matrix], [list(r) for r in ded],
                                        list(range(NPAT)), ex, sort_on_deduped=dedup)
    covered = [any(row) for row in hits]
    total_cov = sum(f for f, c in zip(freqs, covered) if c)
    uniq_cov = sum(1 for c in covered if c)
    incs = [v.incr for v in res.values()]
    uincs = [v.incr_uniq for v in res.values()]
    if sum(incs) != total_cov or sum(uincs) != uniq_cov:
        return False
    key = uincs if dedup else incs
    for i in range(len(key) - 1):
        if key[i] < key[i + 1]:
            return False
    # n / n_uniq are the true column sums; each pattern listed at most once; index is its own
    for pat, v in res.items():
        j = pats.index(pat)
        if v.index != j:
            return False
        if v.n != sum(f for row, f in zip(hits, freqs) if row[j]):
            return False
        if v.n_uniq != sum(1 for row in hits if row[j]):
            return False
    # every pattern that explains something new when its turn comes is listed
    for j in range(NPAT):
        if pats[j] not in res and any(row[j] for row in hits) and not all(
                any(row[q] for q in range(NPAT) if pats[q] in res) for row in hits if row[j]):
            return False
    # greedy replay: incr of the k-th listed pattern = weight of examples it matches that no earlier one did
    seen = [False] * n
    for pat, v in res.items():
        j = pats.index(pat)
        inc = sum(f for i, (row, f) in enumerate(zip(hits, freqs)) if row[j] and not seen[i])
        uinc = sum(1 for i, row in enumerate(hits) if row[j] and not seen[i])
        if v.incr != inc or v.incr_uniq != uinc:
            return False
        for i, row in enumerate(hits):
            if row[j]:
                seen[i] = True
    return True


# ---- K2: counting by real matching ------------------------------------------------------------
MENU = ['^a+$', '[ab]', '^\\d$', '^.b$']


def _ref_match(j, s):
    if j == 0:
        return len(s) >= 1 and all(c == 'a' for c in s)
    if j == 1:
        return len(s) == 1 and s in 'ab'
    if j == 2:
        return len(s) == 1 and s.isdecimal()
    return len(s) == 2 and s[1] == 'b'


# orders in which the menu is handed over: as listed, and two whose sorting permutation is not its own inverse
ORDERS = [(0, 1, 2, 3), (1, 2, 0, 3), (3, 0, 1, 2)]


def k2_coverage(s1: str, s2: str, f1: int, f2: int, dedup: bool, order: int) -> bool:
    """
    pre: len(s1) <= 2 and len(s2) <= 2 and s1 != s2
    pre: 1 <= f1 <= 3 and 1 <= f2 <= 3 and 0 <= order < len(ORDERS)
    post: __return__
    """
    perm = ORDERS[0]
    for k in range(len(ORDERS)):
        if order == k:
            perm = ORDERS[k]
    ex = Examples([s1, s2], [f1, f2])
    got = rex_coverage([MENU[i] for i in perm], ex, dedup=dedup)
    for pos, j in enumerate(perm):
        want = 0
        for s, f in ((s1, f1), (s2, f2)):
            if _ref_match(j, s):
                want += 1 if dedup else f
        if got[pos] != want:
            return False
    return True


def k2_matrices(s1: str, s2: str, f1: int, f2: int) -> bool:
    """
    pre: len(s1) <= 2 and len(s2) <= 2 and s1 != s2
    pre: 1 <= f1 <= 3 and 1 <= f2 <= 3
    post: __return__
    """
    ex = Examples([s1, s2], [f1, f2])
    pats, idx = terminate_patterns_and_sort(list(MENU))
    # a permutation, each terminated, indexes pointing back
    if sorted(idx) != list(range(len(MENU))):
        return False
    for p, i in zip(pats, idx):
        m = MENU[i]
        if p != ('' if m.startswith('^') else '^') + m + ('' if m.endswith('$') else '$'):
            return False
    matrix, ded = coverage_matrices(pats, ex)
    for r, (s, f) in enumerate(((s1, f1), (s2, f2))):
        for c in range(len(pats)):
            hit = _ref_match(idx[c], s)
            if matrix[r][c] != (f if hit else 0) or ded[r][c] != (1 if hit else 0):
                return False
    return True


def k2_end_to_end(s1: str, s2: str, f1: int, f2: int, dedup: bool) -> bool:
    """
    pre: len(s1) <= 2 and len(s2) <= 2 and s1 != s2
    pre: 1 <= f1 <= 2 and 1 <= f2 <= 2
    post: __return__
    """
    # a third, concrete example 'aa' (matched by ^a+$ only) so that an expression can be listed second with fewer
    # NEW examples than examples it matches
    if s1 == 'aa' or s2 == 'aa':
        return True
    ex = Examples([s1, s2, 'aa'], [f1, f2, 2])
    res = rex_full_incremental_coverage(list(MENU), ex, sort_on_deduped=dedup)
    cov = [(s, f) for s, f in ((s1, f1), (s2, f2), ('aa', 2))
           if any(_ref_match(j, s) for j in range(len(MENU)))]
    if sum(v.incr for v in res.values()) != sum(f for s, f in cov):
        return False
    if sum(v.incr_uniq for v in res.values()) != len(cov):
        return False
    simple = rex_incremental_coverage(list(MENU), Examples([s1, s2, 'aa'], [f1, f2, 2]), sort_on_deduped=dedup)
    return list(simple.items()) == [(k, (v.incr_uniq if dedup else v.incr)) for k, v in res.items()]


# ---- K3: example bookkeeping ---------------------------------------------------------------------
STRS = ['ab', '', ' x', None]


def k3_n_examples(mult: List[int]) -> bool:
    """
    pre: len(mult) == 4 and all(0 <= m <= 2 for m in mult)
    pre: not (P['as_dict'] and mult[3] > 0)
    post: __return__
    """
    as_dict, remove_empties, strip = P['as_dict'], P['remove_empties'], P['strip']
    if as_dict:
        examples = {s: m for s, m in zip(STRS[:3], mult[:3])}
    else:
        examples = []
        for s, m in zip(STRS, mult):
            examples.extend([s] * m)
    x = Extractor(examples, extract=False, remove_empties=remove_empties, strip=strip)
    kept = [(s, m) for s, m in zip(STRS[:3], mult[:3]) if m > 0 and not (remove_empties and s == '')]
    want_total = sum(m for s, m in kept)
    want_uniq = len(kept)
    if x.n_examples() != want_total or x.n_examples(dedup=True) != want_uniq:
        return False
    if x.n_nulls != mult[3]:
        return False
    if x.n_empties != (mult[1] if remove_empties else 0):
        return False
    return True


SAMPLED_STRS = ['ab', 'cd', 'e1', '-']


def k3_sampled_figures(mult: List[int], picks: List[int], dedup: bool) -> bool:
    """
    pre: len(mult) == 4 and all(0 <= m <= 2 for m in mult[:2]) and all(0 <= m <= 1 for m in mult[2:]) and sum(mult) >= 1
    pre: len(picks) <= 1 and all(0 <= p_ < 4 for p_ in picks)
    post: __return__
    """
    # with a Size that makes extraction work from a sample, the figures still describe the examples SUPPLIED
    import re
    examples = []
    for s_, m in zip(SAMPLED_STRS, mult):
        examples.extend([s_] * m)
    saved = rx.random, rx.ilist
    rx.random = FakeRandom(picks)
    rx.ilist = rexpy_common.plain_ilist
    try:
        x = Extractor(examples, size=Size(do_all=1, do_all_exceptions=1, n_per_length=1), seed=1)
    finally:
        rx.random, rx.ilist = saved
    supplied = [(s_, m) for s_, m in zip(SAMPLED_STRS, mult) if m > 0]
    total = len(supplied) if dedup else sum(m for s_, m in supplied)
    if x.n_examples(dedup=dedup) != total:
        return False
    rexes = x.results.rex
    want = [sum((1 if dedup else m) for s_, m in supplied if re.fullmatch(r, s_, RE_FLAGS)) for r in rexes]
    if list(x.coverage(dedup=dedup)) != want:
        return False
    return sum(x.incremental_coverage(dedup=dedup).values()) == total


def _obs():
    obs = []
    for nex, npat, tier, to in ((3, 2, 'quick', 120), (2, 3, 'quick', 120), (3, 3, 'thorough', 1200),
                                (4, 2, 'thorough', 1200)):
        obs.append(Ob('K1', 'k1_incremental',
                      'matrices2incremental_coverage: incr/incr_uniq sum to the covered totals, each example credited '
                      'once (greedy replay agrees), order non-increasing in the chosen key, n/n_uniq are column sums',
                      'symbolic match matrix %d examples x %d patterns, frequencies 1..3, dedup symbolic'
                      % (nex, npat), param={'nex': nex, 'npat': npat}, timeout=to, tier=tier))
    obs.append(Ob('K3', 'k3_sampled_figures', 'when a tiny Size makes extraction work from a sample, n_examples, '
                  'coverage and incremental coverage still count the examples supplied (independent full-match '
                  'count over all of them), with and without repeats', '4 concrete strings with symbolic '
                  'multiplicities 0..2, 0..2, 0..1, 0..1; Size(do_all 1, do_all_exceptions 1, n_per_length 1); <=1 '
                  'symbolic sample pick; dedup symbolic', timeout=400,
                  stubs=['random -> FakeRandom (arbitrary subsets)', 'rexpy.ilist -> plain list']))
    obs.append(Ob('K2', 'k2_coverage', 'rex_coverage equals an independent count of full matches, with and without '
                  'repeats, whatever order the expressions are listed in', '2 distinct symbolic strings len<=2, '
                  'frequencies 1..3, menu of %d concrete patterns (one unterminated) in 3 orders' % len(MENU),
                  timeout=400))
    obs.append(Ob('K2', 'k2_matrices', 'terminate_patterns_and_sort is an anchoring permutation with correct '
                  'back-indexes; coverage_matrices entries equal frequency/1 exactly where the pattern matches',
                  '2 distinct symbolic strings len<=2, frequencies 1..3, %d concrete patterns' % len(MENU),
                  timeout=240))
    obs.append(Ob('K2', 'k2_end_to_end', 'rex_full_incremental_coverage / rex_incremental_coverage on real matching: '
                  'credits sum to the matched examples; the simple form is the projection of the full form',
                  '2 distinct symbolic strings len<=2 (frequencies 1..2) + the concrete example aa x2', timeout=400))
    for ad in (False, True):
        for reme in (False, True):
            for st in (False, True):
                obs.append(Ob('K3', 'k3_n_examples', 'n_examples(dedup) equals the number supplied (nulls, zero '
                              'counts and - when requested - empties excluded and counted separately)',
                              'symbolic multiplicities 0..2 of 4 concrete items (text, empty, needs-strip, None); '
                              'as_dict=%s remove_empties=%s strip=%s' % (ad, reme, st),
                              param={'as_dict': ad, 'remove_empties': reme, 'strip': st}, timeout=120))
    return obs


OBLIGATIONS = _obs()
ASSUMPTIONS = ['expressions passed to the coverage functions are pairwise distinct (C13 gives this for rexpy output)']
OUTSIDE = ['zero-coverage expressions need not be listed by incremental coverage (the property does not ask for it)',
           'examples supplied through a check function (no list of all examples exists to count)']
