"""Obligation records: what a harness module exports in OBLIGATIONS."""
import json
from dataclasses import dataclass, field
from typing import Any, List, Optional


@dataclass
class Ob:
    kernel: str                 # 'K1', 'L5a', ... as in DESIGN.md
    fn: str                     # harness function in the module (PEP-316 conditions) or z3 driver
    title: str                  # the universally quantified statement, in words
    bounds: str                 # the bound inside which it is decided
    tier: str = 'quick'         # 'quick' = both tiers, 'thorough' = thorough only, 'quickonly'
    timeout: int = 60           # CrossHair per-condition CPU budget (s)
    param: Any = None           # concrete parameter for this instance (VP_PARAM)
    engine: str = 'crosshair'   # 'crosshair' | 'z3'
    known: List[str] = field(default_factory=list)   # known-finding classes split off
    lift: Optional[str] = None  # harness-module function replaying the args through the public API
    stubs: List[str] = field(default_factory=list)   # doubles / cuts this obligation relies on
    twin: bool = True

    @property
    def oid(self):
        p = ''
        if self.param is not None:
            p = '[' + json.dumps(self.param, sort_keys=True, separators=(',', ':')) + ']'
        return '%s:%s%s' % (self.kernel, self.fn, p)
