import re
from typing import List, Optional, Tuple
from tdda.rexpy.rexpy import escaped_bracket, to_vrles, expand_or_falsify_vrle, Extractor, Examples, Size, ResultsSummary
from tdda.constraints.db.drivers import SQLDatabaseHandler

PUNC = '!"#$%&\'()*+,-./:;<=>?@[\\]^_`{|}~'

def bracket_match(br: str, x: str) -> bool:
    # reference semantics of a bracket expression (python re): returns whether single char x matches
    assert br[0] == '[' and br[-1] == ']'
    body = br[1:-1]
    neg = False
    i = 0
    if body[:1] == '^':
        neg = True; i = 1
    items = []
    first = True
    while i < len(body):
        c = body[i]
        if c == '\\' and i + 1 < len(body):
            lit = body[i+1]; i += 2
        else:
            lit = c; i += 1
        # range?
        if i + 1 < len(body) and body[i] == '-' :
            hi = body[i+1]
            if hi == '\\' and i + 2 < len(body):
                hi = body[i+2]; i += 3
            else:
                i += 2
            items.append((lit, hi))
        else:
            items.append((lit, lit))
        first = False
    hit = any(lo <= x <= hi for lo, hi in items)
    return hit != neg

def bracket_ok(chars: str, x: str) -> bool:
    """
    pre: 1 <= len(chars) <= 3 and len(x) == 1
    pre: all(c in PUNC for c in chars) and x in PUNC
    pre: all(chars[i] < chars[i+1] for i in range(len(chars)-1))
    post: __return__
    """
    br = escaped_bracket(chars)
    return bracket_match(br, x) == (x in chars)

class H(SQLDatabaseHandler):
    def __init__(self):
        self.dbtype = 'sqlite'; self.sql = None
    def execute_scalar(self, sql):
        self.sql = sql; return 0

def sql_lit(sql: str, start: int):
    # decode a SQL string literal starting at sql[start] == "'"; returns (value, end) or None
    i = start + 1; out = ''
    while i < len(sql):
        if sql[i] == "'":
            if i + 1 < len(sql) and sql[i+1] == "'":
                out += "'"; i += 2; continue
            return out, i + 1
        out += sql[i]; i += 1
    return None

def rex_sql(r: str) -> bool:
    """
    pre: len(r) <= 3
    post: __return__
    """
    h = H()
    h.get_database_rex_match('t', 'c', [r])
    sql = h.sql
    pre = 'SELECT COUNT(*) FROM t WHERE "c" IS NOT NULL AND NOT(("c" REGEXP '
    if not sql.startswith(pre): return False
    dec = sql_lit(sql, len(pre))
    if dec is None: return False
    val, end = dec
    return val == r and sql[end:] == '))'

Rle = Tuple[Tuple[str, int], ...]
def vr(counts: List[List[int]]) -> bool:
    """
    pre: 1 <= len(counts) <= 3 and all(len(c) == 2 for c in counts)
    pre: all(1 <= n <= 5 for c in counts for n in c)
    post: __return__
    """
    rles = [(('C', c[0]), ('.', c[1])) for c in counts]
    vrles, _, _ = to_vrles(rles)
    if len(vrles) != 1: return False
    v = vrles[0]
    ok = True
    for r in rles:
        for (cat, n), (vc, m, M) in zip(r, v):
            ok = ok and cat == vc and (m <= n) and (M is None or n <= M)
    return ok
