"""minimal symbolic pandas double (probe)"""
import numpy as np

class SymIndex:
    def __init__(self, n, name=None): self.n = n; self.name = name
    def copy(self): return SymIndex(self.n, self.name)

class StrAcc:
    def __init__(self, s): self.s = s
    def len(self): return SymSeries([None if v is None else len(v) for v in self.s.vals], np.dtype('float64'))

class SymSeries:
    def __init__(self, vals, dtype):
        self.vals = list(vals); self.dtype = dtype
    def __iter__(self): return iter(self.vals)
    def __len__(self): return len(self.vals)
    def nn(self): return [v for v in self.vals if v is not None]
    def dropna(self): return SymSeries(self.nn(), self.dtype)
    def min(self):
        nn = self.nn(); return min(nn) if nn else None
    def max(self):
        nn = self.nn(); return max(nn) if nn else None
    def count(self): return len(self.nn())
    def nunique(self): return len(set(self.nn()))
    def unique(self):
        out = []
        for v in self.vals:
            if v not in out: out.append(v)
        return out
    def isnull(self): return SymSeries([v is None for v in self.vals], np.dtype(bool))
    def sum(self): return sum(1 if v is True else (v or 0) for v in self.vals)
    def astype(self, t):
        if t is bool: return SymSeries([bool(v) for v in self.vals], np.dtype(bool))
        if t == 'O': return SymSeries(self.vals, np.dtype('O'))
        raise NotImplementedError(t)
    def _cmp(self, other, f):
        return SymSeries([None if v is None else f(v, other) for v in self.vals], np.dtype('O'))
    def __ge__(self, o): return self._cmp(o, lambda a, b: a >= b)
    def __gt__(self, o): return self._cmp(o, lambda a, b: a > b)
    def __le__(self, o): return self._cmp(o, lambda a, b: a <= b)
    def __lt__(self, o): return self._cmp(o, lambda a, b: a < b)
    @property
    def str(self): return StrAcc(self)

class SymFrame:
    def __init__(self, cols, index=None):
        self.cols = dict(cols)
        n = len(next(iter(self.cols.values()))) if self.cols else 0
        self.index = index or SymIndex(n)
    def __iter__(self): return iter(self.cols)
    def __len__(self): return self.index.n
    def __getitem__(self, c): return self.cols[c]
    def __setitem__(self, c, v):
        if not isinstance(v, SymSeries): v = SymSeries([v] * self.index.n, np.dtype('O'))
        self.cols[c] = v
    def select_dtypes(self, include=None): return SymFrame({})
