from typing import List, Optional
from tdda.constraints.baseconstraints import BaseConstraintVerifier, BaseConstraintDiscoverer
from tdda.constraints.base import MinConstraint, MaxConstraint, SignConstraint, fuzzy_greater_than

class StubCalc:
    """pure-python calculator over one int column `vals` (None = null)"""
    def __init__(self, vals):
        self.vals = vals
    def is_null(self, v): return v is None
    def to_datetime(self, v): return v
    def column_exists(self, c): return c == 'c'
    def get_column_names(self): return ['c']
    def get_nrecords(self): return len(self.vals)
    def types_compatible(self, x, y, colname=None):
        return True
    def nn(self): return [v for v in self.vals if v is not None]
    def calc_min(self, c):
        nn = self.nn(); return min(nn) if nn else None
    def calc_max(self, c):
        nn = self.nn(); return max(nn) if nn else None
    def calc_tdda_type(self, c): return 'int'
    def calc_null_count(self, c): return len(self.vals) - len(self.nn())
    def calc_non_null_count(self, c): return len(self.nn())
    def calc_nunique(self, c): return len(set(self.nn()))
    def calc_unique_values(self, c, include_nulls=True): return sorted(set(self.nn()))

class V(StubCalc, BaseConstraintVerifier):
    def __init__(self, vals, epsilon=None):
        StubCalc.__init__(self, vals)
        BaseConstraintVerifier.__init__(self, epsilon=epsilon, type_checking='strict')

def check_min_closed(vals: List[Optional[int]], bound: int) -> bool:
    """
    pre: len(vals) <= 3
    post: __return__ == all(v >= bound for v in vals if v is not None)
    """
    v = V(vals)
    return bool(v.verify_min_constraint('c', MinConstraint(bound, precision='closed')))

def check_min_open(vals: List[Optional[int]], bound: int) -> bool:
    """
    pre: len(vals) <= 3
    post: __return__ == all(v > bound for v in vals if v is not None)
    """
    v = V(vals)
    return bool(v.verify_min_constraint('c', MinConstraint(bound, precision='open')))

def check_min_fuzzy(vals: List[Optional[int]], bound: int) -> bool:
    """
    pre: len(vals) <= 3
    post: __return__ == all((100*v >= 99*bound if bound >= 0 else 100*v >= 101*bound) for v in vals if v is not None)
    """
    v = V(vals, epsilon=0.01)
    return bool(v.verify_min_constraint('c', MinConstraint(bound, precision='fuzzy')))
