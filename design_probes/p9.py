from typing import List, Optional
import math
from tdda.constraints.base import fuzzy_greater_than, fuzz_down

def fmin(vals: List[float], b: float) -> bool:
    """
    pre: len(vals) <= 2 and all(math.isfinite(v) for v in vals) and math.isfinite(b)
    post: __return__
    """
    m = min(vals) if vals else None
    if m is None: return True
    return (m >= b) == all(v >= b for v in vals)

def fz(a: float, b: float) -> bool:
    """
    pre: math.isfinite(a) and math.isfinite(b)
    post: __return__
    """
    return fuzzy_greater_than(a, b, 0.0) == (a >= b)

def fz2(a: int, b: int) -> bool:
    """
    pre: -1000 <= a <= 1000 and -1000 <= b <= 1000
    post: __return__
    """
    return fuzzy_greater_than(a, b, 0.01) == (a >= b or (100*a >= 99*b if b >= 0 else 100*a >= 101*b))
