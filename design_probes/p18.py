from typing import List
from tdda.referencetest.referencetest import ReferenceTest
from tdda.referencetest import referencetestcase as rtc
import tdda.rexpy.rexpy as rx
from tdda.rexpy.rexpy import Extractor, Size

LONG = ['--tagged', '--istagged', '--write-all', 'TestA', '--verbose']

def oracle(args):
    tagged = check = regen = False
    out = []
    for a in args:
        if a == '--tagged': tagged = True; continue
        if a == '--istagged': check = True; continue
        if a in ('--write-all', '--W'): regen = True; continue
        if a.startswith('-') and not a.startswith('--'):
            if '1' in a[1:]: tagged = True
            if '0' in a[1:]: check = True
            if 'W' in a[1:]: regen = True
            a = a.replace('1','').replace('0','').replace('W','')
            if a == '-': continue
        out.append(a)
    return out, tagged, check, regen

def flags(c1: str, c2: str, k: int, pos: int) -> bool:
    """
    pre: 1 <= len(c1) <= 2 and 1 <= len(c2) <= 2 and 0 <= k < 5 and 0 <= pos <= 2
    pre: all(ch in '10Wvq' for ch in c1 + c2)
    post: __return__
    """
    ReferenceTest.regenerate = {}
    args = ['-' + c1, '-' + c2]
    args.insert(pos, LONG[k])
    out, tagged, check = rtc._set_flags_from_argv(['prog'] + list(args))
    regen = bool(ReferenceTest.regenerate.get(None))
    eo, et, ec, er = oracle(args)
    return out[1:] == eo and tagged == et and check == ec and regen == er

class FakeRandom:
    def __init__(self, picks): self.picks = picks; self.log = []
    def sample(self, pop, k):
        self.log.append('sample')
        pop = list(pop); out = []
        for i in range(k):
            j = self.picks.pop() % len(pop) if self.picks else 0
            out.append(pop.pop(j))
        return out
    def getstate(self): self.log.append('getstate'); return 'S'
    def setstate(self, s): self.log.append('setstate')
    def seed(self, n): self.log.append('seed')

def prng(do_all: int, dae: int, msa: int, picks: List[int]) -> bool:
    """
    pre: 1 <= do_all <= 2 and 1 <= dae <= 2 and 0 <= msa <= 1 and len(picks) <= 3
    pre: all(0 <= p < 3 for p in picks)
    post: __return__
    """
    fr = FakeRandom(list(picks)); saved = rx.random; rx.random = fr
    try:
        Extractor(['ab', '12', '#'], size=Size(do_all=do_all, do_all_exceptions=dae, max_sampled_attempts=msa), seed=3)
    finally:
        rx.random = saved
    log = fr.log
    if 'sample' in log and ('seed' not in log or log.index('sample') < log.index('seed')): return False
    return log[:2] == ['getstate', 'seed'] and log[-1] == 'setstate'
