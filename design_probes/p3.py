from typing import List, Optional
from tdda.referencetest.checkfiles import FilesComparison

def norm(s, l, r):
    if l and r: return s.strip()
    if l: return s.lstrip()
    if r: return s.rstrip()
    return s

def spec(actual, expected, lstrip, rstrip, ign, rem):
    if actual and len(actual[-1]) == 0: actual = actual[:-1]
    if expected and len(expected[-1]) == 0: expected = expected[:-1]
    a = [x for x in actual if not any(r in x for r in rem)]
    e = [x for x in expected if not any(r in x for r in rem)]
    if len(a) != len(e): return False
    for x, y in zip(a, e):
        if norm(x, lstrip, rstrip) == norm(y, lstrip, rstrip): continue
        if any(s in y for s in ign): continue
        return False
    return True

def chk(actual: List[str], expected: List[str], lstrip: bool, rstrip: bool, ign: List[str], rem: List[str]) -> bool:
    """
    pre: len(actual) <= 2 and len(expected) <= 2 and len(ign) <= 1 and len(rem) <= 1
    pre: all(len(x) <= 2 for x in actual) and all(len(x) <= 2 for x in expected)
    pre: all(1 <= len(x) <= 2 for x in ign) and all(1 <= len(x) <= 2 for x in rem)
    post: __return__
    """
    fc = FilesComparison(verbose=False, tmp_dir='/nonexistent')
    r = fc.check_strings(list(actual), list(expected), lstrip=lstrip, rstrip=rstrip,
                         ignore_substrings=ign or None, remove_lines=rem or None,
                         create_temporaries=False)
    return (r.failures == 0) == spec(actual, expected, lstrip, rstrip, ign, rem)

def ident(actual: List[str], lstrip: bool, rstrip: bool, ign: List[str], rem: List[str]) -> int:
    """
    pre: len(actual) <= 3 and len(ign) <= 1 and len(rem) <= 1
    pre: all(len(x) <= 3 for x in actual)
    post: __return__ == 0
    """
    fc = FilesComparison(verbose=False, tmp_dir='/nonexistent')
    r = fc.check_strings(list(actual), list(actual), lstrip=lstrip, rstrip=rstrip,
                         ignore_substrings=ign or None, remove_lines=rem or None,
                         create_temporaries=False)
    return r.failures
