from typing import List, Optional
from tdda.constraints.baseconstraints import BaseConstraintVerifier, BaseConstraintDiscoverer
from tdda.constraints.base import verify, DatasetConstraints
from p1 import StubCalc

class V(StubCalc, BaseConstraintVerifier):
    def __init__(self, vals, epsilon=None):
        StubCalc.__init__(self, vals)
        BaseConstraintVerifier.__init__(self, epsilon=epsilon, type_checking='strict')
    def write_detected_records(self, **kw): return None

class D(StubCalc, BaseConstraintDiscoverer):
    def __init__(self, vals, inc_rex=False):
        StubCalc.__init__(self, vals)
        BaseConstraintDiscoverer.__init__(self, inc_rex=inc_rex)

def closure(vals: List[Optional[int]]) -> int:
    """
    pre: len(vals) <= 3
    post: __return__ == 0
    """
    fc = D(vals).discover_field_constraints('c')
    dc = DatasetConstraints([fc])
    v = V(vals)
    res = verify(dc, ['c'], v.verifiers())
    return res.failures

def tight(vals: List[Optional[int]]) -> bool:
    """
    pre: len(vals) <= 3
    post: __return__
    """
    fc = D(vals).discover_field_constraints('c')
    d = fc.to_dict_value()
    nn = [v for v in vals if v is not None]
    ok = d['type'] == 'int'
    if nn:
        ok = ok and d['min'] == min(nn) and d['max'] == max(nn)
    else:
        ok = ok and 'min' not in d and 'max' not in d
    nnull = len(vals) - len(nn)
    if len(vals) > 0 and nnull < 2:
        ok = ok and d.get('max_nulls') == nnull
    else:
        ok = ok and 'max_nulls' not in d
    nodup = len(nn) > 1 and len(set(nn)) == len(nn)
    ok = ok and (('no_duplicates' in d) == nodup)
    return ok
