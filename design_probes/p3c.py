from typing import List, Optional
from tdda.referencetest.checkfiles import FilesComparison
from p3 import spec
FilesComparison.reconstruct = lambda self, *a, **k: None
FilesComparison.add_failures = lambda self, *a, **k: None

def chk_plain(actual: List[str], expected: List[str]) -> bool:
    """
    pre: len(actual) <= 2 and len(expected) <= 2
    pre: all(len(x) <= 2 for x in actual) and all(len(x) <= 2 for x in expected)
    post: __return__
    """
    fc = FilesComparison(verbose=False, tmp_dir='/nonexistent')
    r = fc.check_strings(list(actual), list(expected), create_temporaries=False)
    return (r.failures == 0) == spec(actual, expected, False, False, [], [])

def chk_ign(actual: List[str], expected: List[str]) -> bool:
    """
    pre: len(actual) <= 2 and len(expected) <= 2
    pre: all(len(x) <= 2 for x in actual) and all(len(x) <= 2 for x in expected)
    post: __return__
    """
    fc = FilesComparison(verbose=False, tmp_dir='/nonexistent')
    r = fc.check_strings(list(actual), list(expected), ignore_substrings=['#'], create_temporaries=False)
    return (r.failures == 0) == spec(actual, expected, False, False, ['#'], [])

def chk_rem(actual: List[str], expected: List[str]) -> bool:
    """
    pre: len(actual) <= 2 and len(expected) <= 2
    pre: all(len(x) <= 2 for x in actual) and all(len(x) <= 2 for x in expected)
    post: __return__
    """
    fc = FilesComparison(verbose=False, tmp_dir='/nonexistent')
    r = fc.check_strings(list(actual), list(expected), remove_lines=['#'], create_temporaries=False)
    return (r.failures == 0) == spec(actual, expected, False, False, [], ['#'])

def chk_rstrip(actual: List[str], expected: List[str]) -> bool:
    """
    pre: len(actual) <= 2 and len(expected) <= 2
    pre: all(len(x) <= 2 for x in actual) and all(len(x) <= 2 for x in expected)
    post: __return__
    """
    fc = FilesComparison(verbose=False, tmp_dir='/nonexistent')
    r = fc.check_strings(list(actual), list(expected), rstrip=True, create_temporaries=False)
    return (r.failures == 0) == spec(actual, expected, False, True, [], [])
