import re, time
import re._parser as sp
import z3
from tdda.constraints import base

def tr(p):
    """sre parse tree -> z3 regex (subset)"""
    parts = []
    for op, av in p:
        op = str(op)
        if op == 'LITERAL': parts.append(z3.Re(chr(av)))
        elif op == 'IN': parts.append(z3.Union(*[tr_in(i) for i in av]) if len(av) > 1 else tr_in(av[0]))
        elif op == 'MAX_REPEAT':
            lo, hi, sub = av
            r = tr(sub)
            parts.append(z3.Loop(r, lo, hi) if hi != sp.MAXREPEAT else z3.Concat(z3.Loop(r, lo, lo), z3.Star(r)) if lo else z3.Star(r))
        elif op == 'SUBPATTERN': parts.append(tr(av[3]))
        elif op == 'AT': pass   # anchors: full-match semantic assumed (checked separately)
        elif op == 'BRANCH': parts.append(z3.Union(*[tr(b) for b in av[1]]))
        else: raise NotImplementedError(op)
    if not parts: return z3.Re('')
    return z3.Concat(*parts) if len(parts) > 1 else parts[0]

def tr_in(item):
    op, av = item; op = str(op)
    if op == 'LITERAL': return z3.Re(chr(av))
    if op == 'RANGE': return z3.Range(chr(av[0]), chr(av[1]))
    if op == 'CATEGORY' and str(av) == 'CATEGORY_DIGIT': return z3.Range('0', '9')  # ASCII digits only: see note
    raise NotImplementedError((op, av))

RD, RDT, RDTM = [tr(sp.parse(r.pattern)) for r in (base.RD, base.RDT, base.RDTM)]
d = lambda n: z3.Loop(z3.Range('0','9'), n, n)
L = z3.Re
iso_date = z3.Concat(d(4), L('-'), d(2), L('-'), d(2))
iso_dt = z3.Concat(iso_date, L(' '), d(2), L(':'), d(2), L(':'), d(2))
iso_dtm = z3.Concat(iso_dt, L('.'), d(6))
tz = z3.Concat(z3.Union(L('+'), L('-')), d(2), L(':'), d(2))
s = z3.String('s')
t0 = time.time()
for name, lang, target in [('date', iso_date, RD), ('datetime', iso_dt, RDT), ('micro', iso_dtm, RDTM), ('tz', z3.Concat(iso_dt, tz), z3.Union(RD, RDT, RDTM))]:
    sol = z3.Solver()
    sol.add(z3.InRe(s, lang), z3.Not(z3.InRe(s, target)))
    r = sol.check()
    print(name, r, sol.model()[s] if str(r) == 'sat' else '')
# exclusivity: a string produced for datetime must not be caught by the earlier RD
sol = z3.Solver(); sol.add(z3.InRe(s, iso_dt), z3.InRe(s, RD)); print('dt-in-RD', sol.check())
print('time', time.time() - t0)
