from typing import List, Optional
from tdda.serial.csvw import CSVWMetadata
from tdda.serial.pandasio import to_pandas_read_csv_args
from tdda.referencetest.checkfiles import FilesComparison
from p3 import spec
FilesComparison.reconstruct = lambda self, *a, **k: None
FilesComparison.add_failures = lambda self, *a, **k: None

TYPES = ['boolean', 'integer', 'string', 'number', 'date', 'datetime']
PD = {'boolean': 'boolean', 'integer': 'Int64', 'string': 'string', 'number': 'float'}
DELIMS = [None, ',', '|', '\t', ';']

def kwargs(t0: int, t1: int, d: int, hdr: int, hrc: int) -> bool:
    """
    pre: 0 <= t0 < 6 and 0 <= t1 < 6 and 0 <= d < 5 and 0 <= hdr < 3 and 0 <= hrc < 3
    post: __return__
    """
    dialect = {}
    if DELIMS[d] is not None: dialect['delimiter'] = DELIMS[d]
    if hdr: dialect['header'] = (hdr == 1)
    if hrc: dialect['headerRowCount'] = hrc - 1
    spec_ = {'@context': 'http://www.w3.org/ns/csvw', 'url': 'x.csv', 'dialect': dialect,
             'tableSchema': {'columns': [{'name': 'a', 'datatype': TYPES[t0]}, {'name': 'b', 'datatype': TYPES[t1]}]}}
    md = CSVWMetadata(spec_, verbosity=0)
    kw = to_pandas_read_csv_args(md)
    want_dtype = {n: PD[t] for n, t in (('a', TYPES[t0]), ('b', TYPES[t1])) if t in PD} or None
    want_dates = [n for n, t in (('a', TYPES[t0]), ('b', TYPES[t1])) if t.startswith('date')]
    ok = kw.get('dtype') == want_dtype and kw.get('parse_dates', []) == want_dates
    ok = ok and kw.get('sep') == DELIMS[d]
    no_header = (hrc == 1) or (hrc == 0 and hdr == 2)
    ok = ok and (('header' in kw and kw['header'] is None) == no_header)
    return ok

def chk_rem(actual: List[str], expected: List[str]) -> bool:
    """
    pre: len(actual) <= 2 and len(expected) <= 2
    pre: all(len(x) <= 1 for x in actual) and all(len(x) <= 1 for x in expected)
    post: __return__
    """
    fc = FilesComparison(verbose=False, tmp_dir='/nonexistent')
    r = fc.check_strings(list(actual), list(expected), remove_lines=['#'], create_temporaries=False)
    return (r.failures == 0) == spec(actual, expected, False, False, [], ['#'])

def chk_strip(actual: List[str], expected: List[str]) -> bool:
    """
    pre: len(actual) <= 2 and len(expected) <= 2
    pre: all(len(x) <= 2 for x in actual) and all(len(x) <= 2 for x in expected)
    pre: all(c in ' ab' for x in actual + expected for c in x)
    post: __return__
    """
    fc = FilesComparison(verbose=False, tmp_dir='/nonexistent')
    r = fc.check_strings(list(actual), list(expected), lstrip=True, rstrip=True, create_temporaries=False)
    return (r.failures == 0) == spec(actual, expected, True, True, [], [])
