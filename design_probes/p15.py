import re, unittest
from typing import List, Optional, Dict
from tdda.rexpy.rexpy import escape
from tdda.referencetest.checkfiles import FilesComparison
from tdda.referencetest.referencetestcase import TaggedTestLoader
from tdda.referencetest.referencetest import tag
from tdda.constraints.base import DatasetConstraints
from tdda.referencetest import gentest

META = set('.^$*+?{}[]\\|()')
def esc_ok(s: str) -> bool:
    """
    pre: len(s) == 1
    post: __return__
    """
    e = escape(s)
    out = ''; i = 0
    while i < len(e):
        if e[i] == '\\':
            if i + 1 >= len(e): return False
            if e[i+1].isalnum(): return False
            out += e[i+1]; i += 2
        else:
            if e[i] in META: return False
            out += e[i]; i += 1
    return out == s

FilesComparison.reconstruct = lambda self, *a, **k: None
FilesComparison.add_failures = lambda self, *a, **k: None
def pat(a: str, e: str) -> bool:
    """
    pre: len(a) <= 3 and len(e) <= 3
    pre: all(c in '12x ' for c in a) and all(c in '12x ' for c in e)
    post: __return__
    """
    fc = FilesComparison(verbose=False)
    r = fc.check_strings([a], [e], ignore_patterns=[r'\d+'], create_temporaries=False)
    # declarative oracle for single pattern \d+ : equal after collapsing digit runs
    col = lambda s: re.sub(r'\d+', '#', s)
    def collapse(s):
        out = ''; prev = False
        for c in s:
            d = c in '12'
            if d and prev: continue
            out += '#' if d else c
            prev = d
        return out
    want = (a == e) or (collapse(a) == collapse(e))
    if a == '' or e == '': want = (a == e) or (r.failures == 0)  # trailing-empty rule handled elsewhere
    return (r.failures == 0) == want

def names(t1: bool, t2: bool, tc: bool, tb: bool) -> bool:
    """
    post: __return__
    """
    class Base(unittest.TestCase): pass
    if tb: Base = tag(Base)
    def m1(self): pass
    def m2(self): pass
    if t1: m1 = tag(m1)
    if t2: m2 = tag(m2)
    C = type('C', (Base,), {'test_a': m1, 'test_b': m2})
    if tc: C = tag(C)
    got = list(TaggedTestLoader(False).getTestCaseNames(C))
    want = [n for n, t in (('test_a', t1), ('test_b', t2)) if t or tc or tb]
    return got == want

def loaddict(kmin: Optional[int], kmax: Optional[int], typ: int, unk: bool, hashkey: bool) -> bool:
    """
    pre: 0 <= typ < 5
    post: __return__
    """
    T = ['bool', 'int', 'real', 'date', 'string'][typ]
    c = {'type': T, 'min': kmin, 'max': kmax}
    if unk: c['frob'] = 1
    if hashkey: c['#note'] = 'x'
    d = {'fields': {'f': c}}
    D = DatasetConstraints(); D.initialize_from_dict(d)
    out = D.to_dict()['fields']['f']
    return out == {'type': T, 'min': kmin, 'max': kmax}

def clsname(script: str) -> bool:
    """
    pre: 1 <= len(script) <= 6
    pre: all(c in 'at_-.1' for c in script)
    post: __return__
    """
    import os
    cn = 'Test' + os.path.basename(script[5:-3]).upper()
    return cn.isidentifier()
