import datetime, re
from typing import List, Optional
from tdda.constraints.base import get_date, MinConstraint, Constraint
from tdda.referencetest import gentest
from tdda.referencetest.gentest import quote_raw
from tdda.constraints.pd.constraints import is_ver_field, verification_field
from tdda.rexpy.rexpy import matrices2incremental_coverage, Examples, expand_or_falsify_vrle

def date_rt(y: int, mo: int, d: int, h: int, mi: int, s: int, us: int) -> bool:
    """
    pre: 1 <= y <= 9999 and 1 <= mo <= 12 and 1 <= d <= 28 and 0 <= h < 24 and 0 <= mi < 60 and 0 <= s < 60 and 0 <= us < 1000000
    post: __return__
    """
    dt = datetime.datetime(y, mo, d, h, mi, s, us)
    return get_date(str(dt)) == dt

class M:
    def __init__(self, g): self.g = g
    def group(self, i): return self.g[i]

def datelike_noraise(n1: int, n2: int, n3: int) -> bool:
    """
    pre: 0 <= n1 <= 9999 and 0 <= n2 <= 99 and 0 <= n3 <= 9999
    post: True
    """
    # post-regex arithmetic of is_date_like with the three captured numbers symbolic
    orig = gentest.re.match
    m = M({2: str(n1), 3: str(n2), 4: str(n3)})
    def fake(rex, line):
        if rex is gentest.D2: return True
        if rex is gentest.NUM_DATE_RE: return m
        return None
    class R: match = staticmethod(fake)
    gentest.re, saved = R, gentest.re
    try:
        gentest.is_date_like('x')
    finally:
        gentest.re = saved
    return True

def qraw(s: str) -> bool:
    """
    pre: len(s) <= 3
    post: __return__
    """
    q = quote_raw(s)
    # mini raw-literal decoder
    if q.startswith("r'''") or q.startswith('r"""'):
        body, qt = q[4:-3], q[1:4]
    elif q.startswith("r'") or q.startswith('r"'):
        body, qt = q[2:-1], q[1]
        if '\n' in body: return False
    else:
        return True
    if qt in body: return False
    nb = len(body) - len(body.rstrip('\\'))
    if nb % 2 == 1: return False
    return body == s

def verfield(col: str, k: int) -> bool:
    """
    pre: len(col) <= 3 and 0 <= k < 10
    post: __return__
    """
    kinds = ['type','min','min_length','max','max_length','sign','max_nulls','no_duplicates','allowed_values','rex']
    return is_ver_field(verification_field(col, kinds[k]), col)

def inccov(m: List[List[int]], dedup: bool) -> bool:
    """
    pre: 1 <= len(m) <= 3 and all(len(r) == 2 for r in m)
    pre: all(0 <= x <= 2 for r in m for x in r)
    pre: all(r[0] == 0 or r[1] == 0 or r[0] == r[1] for r in m)
    pre: all(r[0] + r[1] > 0 for r in m)
    post: __return__
    """
    matrix = [list(r) for r in m]
    freqs = [max(r) for r in m]
    total = sum(freqs)
    ded = [[1 if x else 0 for x in r] for r in matrix]
    ex = Examples(['s%d' % i for i in range(len(m))], freqs)
    res = matrices2incremental_coverage(['^a$', '^b$'], matrix, ded, [0, 1], ex, sort_on_deduped=dedup)
    incs = [v.incr for v in res.values()]
    uincs = [v.incr_uniq for v in res.values()]
    key = uincs if dedup else incs
    return sum(incs) == total and sum(uincs) == len(m) and all(key[i] >= key[i+1] for i in range(len(key)-1)) and len(res) == 2
