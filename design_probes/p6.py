import re
from tdda.rexpy.rexpy import Extractor, Categories, escape, escaped_bracket, RE_FLAGS

X = Extractor(['a'], extract=False, dialect='portable')
XP = Extractor(['a'], extract=False, dialect='perl')

def coarse_total(c: str) -> bool:
    """
    pre: len(c) == 1
    post: __return__
    """
    code = X.coarse_classify_char(c)
    cat = X.Cats[code]
    return re.match(cat.re_single, c) is not None

def fine_portable(c: str) -> bool:
    """
    pre: len(c) == 1
    pre: X.coarse_classify_char(c) == 'Ḉ'
    post: __return__
    """
    code = X.fine_class(c)
    rs = X.OutCats[code].re_string
    return re.match(re.compile('^%s$' % rs, RE_FLAGS), c) is not None

def fine_perl(c: str) -> bool:
    """
    pre: len(c) == 1
    pre: XP.coarse_classify_char(c) == 'Ḉ'
    post: __return__
    """
    code = XP.fine_class(c)
    rs = XP.Cats[code].re_string
    return re.match(re.compile('^%s$' % rs, RE_FLAGS), c) is not None

def escape_ok(c: str) -> bool:
    """
    pre: len(c) == 1
    post: __return__
    """
    e = escape(c)
    m = re.match(re.compile('^%s$' % e, RE_FLAGS), c)
    return m is not None
