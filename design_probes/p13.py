from typing import List
import tdda.rexpy.rexpy as rx
from tdda.rexpy.rexpy import Extractor, Examples, Size

UNIVERSE = ['s0', 's1', 's2', 's3']

class FakeResults:
    def __init__(self, work): self.rex = ['^W$']; self.work = list(work)
    def remove(self, idx): pass
    def convert_to_dialect(self, x): pass

class X(Extractor):
    """real extract() loop; batch_extract idealised: its expressions match exactly its working set"""
    def batch_extract(self):
        return FakeResults(self.examples.strings)

class FakeRandom:
    def __init__(self, picks): self.picks = picks; self.log = []
    def sample(self, pop, k):
        self.log.append('sample')
        pop = list(pop); out = []
        for i in range(k):
            j = self.picks.pop() % len(pop) if self.picks else 0
            out.append(pop.pop(j))
        return out
    def getstate(self): self.log.append('getstate'); return 'S'
    def setstate(self, s): self.log.append('setstate')
    def seed(self, n): self.log.append('seed')

def loop(n: int, do_all: int, dae: int, msa: int, picks: List[int]) -> bool:
    """
    pre: 1 <= n <= 4 and 1 <= do_all <= 2 and 1 <= dae <= 2 and 0 <= msa <= 2 and len(picks) <= 4
    pre: all(0 <= p < 4 for p in picks)
    post: __return__
    """
    universe = UNIVERSE[:n]
    holder = {}
    def check_fn(rexes, maxN):
        work = holder['x'].results.work if rexes else []
        fails = [s for s in universe if s not in work]
        if maxN is not None and len(fails) > maxN:
            fails = fr.sample(fails, maxN)
        return Examples(fails), [0] * len(rexes)
    fr = FakeRandom(list(picks))
    saved = rx.random
    rx.random = fr
    try:
        size = Size(do_all=do_all, do_all_exceptions=dae, max_sampled_attempts=msa)
        x = X.__new__(X); holder['x'] = x; x.results = None
        X.__init__(x, check_fn, size=size, extract=True, seed=7)
    finally:
        rx.random = saved
    return all(s in x.results.work for s in universe)
