import os
from typing import List
import tdda.referencetest.checkfiles as cf
import tdda.referencetest.basecomparison as bc

class FakeFile:
    def __init__(self, fs, path, mode):
        self.fs, self.path, self.mode = fs, path, mode
        self.buf = '' if 'w' in mode else fs.files[path]
    def __enter__(self): return self
    def __exit__(self, *a):
        if 'w' in self.mode: self.fs.files[self.path] = self.buf
        return False
    def read(self): return self.buf
    def write(self, s): self.buf += s

class FakeFS:
    def __init__(self, files): self.files = dict(files); self.writes = []
    def open(self, path, mode='r', encoding=None):
        if 'w' in mode:
            self.writes.append(path)
        elif path not in self.files:
            raise IOError(path)
        return FakeFile(self, path, mode)
    def exists(self, p): return p in self.files

class FakeOSPath:
    def __init__(self, fs): self.fs = fs
    def __getattr__(self, n): return getattr(os.path, n)
    def exists(self, p): return self.fs.exists(p)
class FakeOS:
    def __init__(self, fs): self.path = FakeOSPath(fs); self.name = 'posix'

cf.FilesComparison.diff_marker = lambda self, l, r: '<>'

def artefacts(actual: str, ref: str) -> bool:
    """
    pre: len(actual) <= 3 and len(ref) <= 3
    post: __return__
    """
    fs = FakeFS({'/ref/r.txt': ref})
    cf.open = fs.open; bc.os = FakeOS(fs); cf.os = FakeOS(fs)
    try:
        fc = cf.FilesComparison(verbose=False, tmp_dir='/tmp/T')
        code, msgs = fc.check_string_against_file(actual, '/ref/r.txt')
    finally:
        del cf.open; bc.os = os; cf.os = os
    if fs.files['/ref/r.txt'] != ref: return False
    if code == 0:
        return fs.writes == []
    if not all(w.startswith('/tmp/T/') for w in fs.writes): return False
    raw = fs.files.get('/tmp/T/actual-raw-r.txt')
    return raw is not None and raw.splitlines() == actual.splitlines()
