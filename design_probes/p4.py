from typing import List, Optional, Tuple
from tdda.referencetest.referencetest import ReferenceTest
from tdda.referencetest import referencetestcase as rtc

VOCAB = ['-1', '-0', '-W', '-v', '-q', '-f', '-1v', '--tagged', '--istagged', '--write-all', '-k', 'TestA']

def oracle(args):
    tagged = check = regen = False
    out = []
    for a in args:
        if a == '--tagged': tagged = True; continue
        if a == '--istagged': check = True; continue
        if a in ('--write-all', '--W'): regen = True; continue
        if a.startswith('-') and not a.startswith('--'):
            if '1' in a[1:]: tagged = True
            if '0' in a[1:]: check = True
            if 'W' in a[1:]: regen = True
            a = a.replace('1','').replace('0','').replace('W','')
            if a == '-': continue
        out.append(a)
    return out, tagged, check, regen

def flags(idx: List[int]) -> bool:
    """
    pre: len(idx) <= 3
    pre: all(0 <= i < 12 for i in idx)
    post: __return__
    """
    ReferenceTest.regenerate = {}
    args = [VOCAB[i] for i in idx]
    argv = ['prog'] + args
    out, tagged, check = rtc._set_flags_from_argv(list(argv))
    regen = bool(ReferenceTest.regenerate.get(None))
    eo, et, ec, er = oracle(args)
    return (out[1:] == eo and out[0] == 'prog' and tagged == et and check == ec and regen == er)
