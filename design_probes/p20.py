from typing import List
from tdda.rexpy.rexpy import Extractor

X = Extractor(['a'], extract=False)
FR = [('a', 1, 1, 'fixed'), ('\\-', 1, 1, 'fixed'), ('D', 1, 2), ('L', 1, None)]

def merge(p: List[List[int]]) -> bool:
    """
    pre: 2 <= len(p) <= 3 and all(1 <= len(r) <= 3 for r in p)
    pre: all(0 <= x < 4 for r in p for x in r)
    post: __return__
    """
    pats = [[FR[i] for i in r] for r in p]
    out = X.merge_patterns([list(r) for r in pats])
    return sorted(map(tuple, out)) == sorted(map(tuple, pats))
