from typing import List
import numpy as np
import tdda.referencetest.checkpandas as cp

class DT:
    def __init__(self, name): self.name = name
    def __eq__(self, o): return isinstance(o, DT) and o.name == self.name
    def __str__(self): return self.name
class S:
    def __init__(self, vals, dt): self.vals = list(vals); self.dtype = DT(dt)
class F:
    def __init__(self, names, dts, rows):
        self.names = list(names); self.cols = {n: S([r[i] for r in rows], dts[i]) for i, n in enumerate(names)}; self.n = len(rows)
    def __iter__(self): return iter(self.names)
    def __contains__(self, c): return c in self.names
    def __getitem__(self, c):
        if isinstance(c, list):
            f = F([], [], []); f.names = list(c); f.cols = {k: self.cols[k] for k in c}; f.n = self.n; return f
        return self.cols[c]
    def __len__(self): return self.n
    @property
    def shape(self): return (self.n, len(self.names))
    def round(self, p): return self
    def reset_index(self, drop=False): return self
    def equals(self, o): return self.names == o.names and all(self.cols[k].vals == o.cols[k].vals for k in self.names)

NAMES = ['a', 'b', 'c']; DTS = ['int64', 'float64', 'object']

def structure(n1: List[int], d1: List[int], n2: List[int], d2: List[int], ct: bool, co: bool) -> bool:
    """
    pre: 1 <= len(n1) <= 2 and len(d1) == len(n1) and 1 <= len(n2) <= 2 and len(d2) == len(n2)
    pre: all(0 <= x < 3 for x in n1 + n2 + d1 + d2)
    pre: len(set(n1)) == len(n1) and len(set(n2)) == len(n2)
    post: __return__
    """
    df = F([NAMES[i] for i in n1], [DTS[i] for i in d1], [])
    ref = F([NAMES[i] for i in n2], [DTS[i] for i in d2], [])
    pc = cp.PandasComparison(verbose=False)
    r = pc.check_dataframe(df, ref, check_types=None if ct else False, check_order=None if co else False,
                           check_data=False, create_temporaries=False)
    A = {NAMES[i]: DTS[j] for i, j in zip(n1, d1)}; R = {NAMES[i]: DTS[j] for i, j in zip(n2, d2)}
    want = True
    if ct:
        want = want and all(k in A and A[k] == R[k] for k in R)
    extra = set(A) - set(R)
    want = want and not extra
    missing = ct and any(k not in A for k in R)
    if co and not missing:
        o1 = [k for k in [NAMES[i] for i in n1] if k in R]; o2 = [k for k in [NAMES[i] for i in n2] if k in A]
        want = want and o1 == o2
    return (r.failures == 0) == want
