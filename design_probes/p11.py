from typing import List, Optional
import numpy as np
import symdf
from symdf import SymSeries, SymFrame
import tdda.constraints.pd.constraints as pc
from tdda.constraints.base import MinConstraint

class FakePD:
    Timestamp = pc.pd.Timestamp
    core = pc.pd.core
    NaT = pc.pd.NaT
    @staticmethod
    def isnull(v):
        if isinstance(v, SymSeries): return v.isnull()
        return v is None
    @staticmethod
    def DataFrame(index=None): return SymFrame({}, index=index)
class FakeNP:
    nan = None
    dtype = np.dtype
    datetime64 = np.datetime64
    bool_ = np.bool_
    @staticmethod
    def where(cond, a, b):
        bv = b.vals if isinstance(b, SymSeries) else [b] * len(cond)
        return SymSeries([a if c else x for c, x in zip(cond.vals, bv)], np.dtype('O'))
pc.pd = FakePD
pc.np = FakeNP

def vmin(vals: List[Optional[int]], bound: int) -> bool:
    """
    pre: len(vals) <= 3
    post: __return__
    """
    df = SymFrame({'c': SymSeries(vals, np.dtype('int64') if None not in vals else np.dtype('float64'))})
    v = pc.PandasConstraintVerifier(df)
    r = v.verify_min_constraint('c', MinConstraint(bound, precision='closed'), detect=True)
    want = all(x >= bound for x in vals if x is not None)
    if bool(r) != want: return False
    if not want:
        flags = v.out_df['c_min_ok'].vals
        exp = [None if x is None else x >= bound for x in vals]
        if None not in vals: exp = [bool(e) for e in exp]
        return flags == exp
    return True
