import ast, time, inspect, z3
import tdda.constraints.base as base

SRC = ast.parse(open(base.__file__).read())
FUNCS = {n.name: n for n in SRC.body if isinstance(n, ast.FunctionDef)}

class Sym:
    """tiny symbolic evaluator over a numeric sort (Real or FP64)"""
    def __init__(self, mode): self.mode = mode
    def const(self, v):
        if isinstance(v, bool): return z3.BoolVal(v)
        if self.mode == 'real': return z3.RealVal(str(v))
        return z3.FPVal(float(v), z3.Float64())
    def call(self, name, args):
        fn = FUNCS[name]
        env = {a.arg: v for a, v in zip(fn.args.args, args)}
        return self.block(fn.body, env)
    def block(self, stmts, env):
        for i, s in enumerate(stmts):
            if isinstance(s, ast.Expr): continue      # docstring
            if isinstance(s, ast.Return): return self.ev(s.value, env)
            if isinstance(s, ast.If):
                c = self.ev(s.test, env)
                rest = stmts[i+1:]
                t = self.block(s.body + rest, env); e = self.block(s.orelse + rest, env)
                if z3.is_false(c): return e
                if z3.is_true(c): return t
                return z3.If(c, t, e)
            raise NotImplementedError(ast.dump(s))
    def ev(self, e, env):
        if isinstance(e, ast.Constant): return self.const(e.value)
        if isinstance(e, ast.Name): return env[e.id]
        if isinstance(e, ast.BoolOp):
            vs = [self.ev(v, env) for v in e.values]
            return z3.Or(*vs) if isinstance(e.op, ast.Or) else z3.And(*vs)
        if isinstance(e, ast.Compare):
            l = self.ev(e.left, env); out = []
            for op, r in zip(e.ops, e.comparators):
                if isinstance(op, ast.Is):     # `type(v) is datetime.x` : numeric sort => False
                    out.append(z3.BoolVal(False)); continue
                r = self.ev(r, env)
                f = {ast.GtE: lambda a,b: a>=b, ast.LtE: lambda a,b: a<=b, ast.Gt: lambda a,b: a>b, ast.Lt: lambda a,b: a<b}[type(op)]
                out.append(f(l, r)); l = r
            return z3.And(*out) if len(out) > 1 else out[0]
        if isinstance(e, ast.BinOp):
            a, b = self.ev(e.left, env), self.ev(e.right, env)
            if self.mode == 'fp':
                rm = z3.RNE()
                return {ast.Mult: lambda: z3.fpMul(rm,a,b), ast.Add: lambda: z3.fpAdd(rm,a,b), ast.Sub: lambda: z3.fpSub(rm,a,b)}[type(e.op)]()
            return {ast.Mult: lambda: a*b, ast.Add: lambda: a+b, ast.Sub: lambda: a-b}[type(e.op)]()
        if isinstance(e, ast.IfExp):
            return z3.If(self.ev(e.test, env), self.ev(e.body, env), self.ev(e.orelse, env))
        if isinstance(e, ast.Call) and isinstance(e.func, ast.Name) and e.func.id in FUNCS:
            return self.call(e.func.id, [self.ev(a, env) for a in e.args])
        if isinstance(e, ast.Call) and isinstance(e.func, ast.Name) and e.func.id == 'type':
            return None
        raise NotImplementedError(ast.dump(e))

# Real: fuzzy_greater_than(a,b,eps) == documented meaning, eps symbolic in [0,1)
S = Sym('real'); a, b, eps = z3.Reals('a b eps')
impl = S.call('fuzzy_greater_than', [a, b, eps])
spec = z3.Or(a >= b, a >= b - z3.If(b >= 0, b, -b) * eps)
t0 = time.time(); s = z3.Solver(); s.add(eps >= 0, eps < 1, impl != spec); print('real gt', s.check(), time.time()-t0)
impl = S.call('fuzzy_less_than', [a, b, eps]); spec = z3.Or(a <= b, a <= b + z3.If(b >= 0, b, -b) * eps)
t0 = time.time(); s = z3.Solver(); s.add(eps >= 0, eps < 1, impl != spec); print('real lt', s.check(), time.time()-t0)
# FP: eps == 0 => exact comparison ; b == 0 => never fuzzy
F = Sym('fp'); fa, fb = z3.FP('a', z3.Float64()), z3.FP('b', z3.Float64())
fin = lambda x: z3.Not(z3.Or(z3.fpIsNaN(x), z3.fpIsInf(x)))
impl = F.call('fuzzy_greater_than', [fa, fb, z3.FPVal(0.0, z3.Float64())])
t0 = time.time(); s = z3.Solver(); s.add(fin(fa), fin(fb), impl != (fa >= fb)); print('fp eps0', s.check(), time.time()-t0)
for e in (0.01, 0.5):
    impl = F.call('fuzzy_greater_than', [fa, z3.FPVal(0.0, z3.Float64()), z3.FPVal(e, z3.Float64())])
    t0 = time.time(); s = z3.Solver(); s.add(fin(fa), impl != (fa >= z3.FPVal(0.0, z3.Float64()))); print('fp zero-bound', e, s.check(), time.time()-t0)
    d = F.call('fuzz_down', [fb, z3.FPVal(e, z3.Float64())])
    t0 = time.time(); s = z3.Solver(); s.set('timeout', 60000); s.add(fin(fb), z3.Not(d <= fb)); print('fp fuzz_down<=b', e, s.check(), time.time()-t0)
