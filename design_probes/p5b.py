from typing import List
from tdda.serial.csvw import csvw_date_format_to_md_date_format as tr

TOK = ['d','dd','M','MM','yy','yyyy','HH','mm','ss','S','SS','SSS']
EXP = ['%d','%d','%m','%m','%y','%Y','%H','%M','%S','%f','%f','%f']
SEP = ['-','/','.',':',' ','T']

def fmt2(t0: int, t1: int, s: int) -> bool:
    """
    pre: 0 <= t0 < 12 and 0 <= t1 < 12 and 0 <= s < 6
    post: __return__
    """
    f = TOK[t0] + SEP[s] + TOK[t1]
    e = EXP[t0] + SEP[s] + EXP[t1]
    out = tr(f)
    return out == e or out == 'ISO8601'

def sym3(f: str) -> bool:
    """
    pre: len(f) <= 3
    pre: all(c in 'dMyHmsS-: T' for c in f)
    post: __return__
    """
    out = tr(f)
    return (('d' in f) == ('%d' in out)) or out == 'ISO8601'
