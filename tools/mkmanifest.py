#!/usr/bin/env python3
"""Regenerate MANIFEST.json from tools/claims.json (claimed properties + not_applicable)."""
import json, os
HERE = os.path.dirname(os.path.dirname(os.path.abspath(__file__)))
claims = json.load(open(os.path.join(HERE, 'tools', 'claims.json')))
checks = []
for pid, c in sorted(claims['claimed'].items()):
    checks.append({
        'property_id': pid,
        'quick_cmd': './check %s quick' % pid,
        'thorough_cmd': './check %s thorough' % pid,
        'evidence_file': 'evidence/%s.json' % pid,
        'replay_cmd_template': './check --replay {path}',
        'engine': 'vp-symbolic',
        'level_claimed': {
            'category': 'model_checking',
            'text': c['text'],
            'design_ref': c.get('design_ref', 'DESIGN.md section 3, ' + pid),
        },
        'level_note': c['note'],
        'technique': c['technique'],
    })
m = {
    'version': 1,
    'setup_cmd': './setup.sh',
    'hooks': {
        'guard': 'TDDA_TDDA_VERIF',
        'enable': 'no source hooks exist: all stubbing is namespace patching from the harness process; '
                  'checks export TDDA_TDDA_VERIF=1 for uniformity',
        'baseline_off_cmd': 'python3 /verif/tools/baseline.py',
        'source_commits': [],
        'add_only': True,
    },
    'engines': [{
        'name': 'vp-symbolic',
        'path': 'vp/run.py',
        'serves_properties': sorted(claims['claimed']),
        'kind_free_text': 'bounded symbolic execution of the real tdda functions with CrossHair (z3) per obligation, '
                          'plus direct z3 encodings regenerated from the current source (AST->z3 for float kernels, '
                          'sre_parse->z3 regular languages); counterexamples replayed concretely before reporting',
    }],
    'checks': checks,
    'not_applicable': [{'property_id': k, 'reason': v} for k, v in sorted(claims.get('not_applicable', {}).items())],
    'notes': claims.get('notes', ''),
}
json.dump(m, open(os.path.join(HERE, 'MANIFEST.json'), 'w'), indent=1)
print('MANIFEST.json: %d checks, %d not_applicable' % (len(checks), len(m['not_applicable'])))
