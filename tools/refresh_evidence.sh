#!/bin/sh
# run every quick check against /repo and rewrite evidence/*.json (sequentially; ~45 min)
cd "$(dirname "$0")/.."
for p in C01 C02 C03 C04 C05 C06 C07 C08 C09 C10 C11 C12 C13 C14 C15 C16 C17 C18 C19; do
  ./check $p quick > work/last_$p.log 2>&1
  echo "$p exit=$? $(tail -1 work/last_$p.log | cut -c1-150)"
done
