#!/usr/bin/env python3
"""Write seeded/README.md from seeded/*/meta.json (the records tools/seedtest.py leaves)."""
import glob, json, os
HERE = os.path.dirname(os.path.dirname(os.path.abspath(__file__)))
NOTES = {
 'C01-1': 'get_date parses the microsecond field through float(): CrossHair cannot decide float parsing of symbolic text, '
          'and the date menu of C01-K2 happens not to hold one of the ~1.2% affected microsecond values (outside: stated)',
 'C01-2': 'categorical columns are outside the symdf double (stated under C01 "outside the claim")',
 'C06-2': 'index alignment of a real pandas Series is outside the symdf double (no index semantics); the change also uses '
          'pd.Series, which the double reports as unsupported -> inconclusive, not a violation',
 'C01-r3-2': 'categorical columns (declared but unused categories) are outside the symdf double (stated under C01 "outside the claim")',
 'C05-r3-2': 'row-label alignment after a condition filter is real-pandas index semantics, which the CFrame double does not '
             'have; the change also calls sort_values(ignore_index=True), which the double reports as unsupported -> '
             'inconclusive, not a violation',
 'C11-2': 'needs chardet to mis-detect an encoding: chardet and real encodings are outside (stated)',
}
rows = []
for f in sorted(glob.glob(os.path.join(HERE, 'seeded', '*', 'meta.json'))):
    d = json.load(open(f))
    caught = []
    import re
    for p, c in d.get('checks', {}).items():
        for ln in c.get('lines', []):
            m = re.match(r'counterexample (\w+):(\w+)', ln)
            if m:
                caught.append('%s %s:%s' % (p, m.group(1), m.group(2)))
    rows.append((d['id'], d['property'], 'caught' if d.get('detected') else 'MISSED',
                 ', '.join(sorted(set(caught)))[:120], (d.get('what_changed') or '')[:160].replace('\n', ' '),
                 (d.get('needs_to_manifest') or '')[:160].replace('\n', ' ')))
out = ['# Seeded changes\n',
       'Each directory holds `patch.diff` (against /repo HEAD at the time), `demo.py` (exits 0 clean, non-zero patched) and',
       '`meta.json` (what changed, what it needs to manifest, what was run, which obligations reported it).',
       'Confirmed and evaluated with `tools/seedtest.py <candidate>`; none of these is ever committed to /repo.\n',
       '| id | property | quick check | obligations reporting | change | needs |', '|---|---|---|---|---|---|']
for r in rows:
    out.append('| %s | %s | %s | %s | %s | %s |' % r)
n = len(rows); c = sum(1 for r in rows if r[2] == 'caught')
out.append('\n%d of %d confirmed changes are reported by a quick check (of their own property unless the obligations column names another).' % (c, n))
out.append('\nMisses and why (see DESIGN.md section 6):')
for r in rows:
    if r[2] != 'caught':
        out.append('* %s - %s' % (r[0], NOTES.get(r[0], 'not yet analysed')))
open(os.path.join(HERE, 'seeded', 'README.md'), 'w').write('\n'.join(out) + '\n')
print('\n'.join(out[-6:]))
