#!/bin/sh
# run every thorough check against /repo once, end to end, keeping the committed quick evidence untouched:
# evidence goes to work/thorough_evidence, logs to work/thorough_<Cxx>.log   (hours; see DESIGN section 2 "Tiers")
cd "$(dirname "$0")/.."
mkdir -p work/thorough_evidence
for p in ${*:-C16 C17 C14 C12 C11 C07 C19 C05 C04 C15 C02 C08 C01 C06 C10 C13 C03}; do
  t0=$(date +%s)
  VERIF_EVIDENCE_DIR=$PWD/work/thorough_evidence ./check $p thorough > work/thorough_$p.log 2>&1
  echo "$p exit=$? $(( $(date +%s) - t0 ))s $(grep -c '^NOTE\|inconclusive' work/thorough_$p.log) notes | $(tail -1 work/thorough_$p.log | cut -c1-150)"
done
