#!/usr/bin/env python3
"""Run the repository's pinned suite (guard OFF) and compare with /root/.vp/BASELINE.json.
usage: tools/baseline.py [repo_dir]    exit 0 iff every stable_pass test still passes."""
import json, os, subprocess, sys, tempfile
import xml.etree.ElementTree as ET
repo = sys.argv[1] if len(sys.argv) > 1 else '/repo'
base = json.load(open('/root/.vp/BASELINE.json'))
fd, x = tempfile.mkstemp(suffix='.xml'); os.close(fd)
env = dict(os.environ); env.pop('TDDA_TDDA_VERIF', None)
subprocess.run(['/venv/bin/python', '-m', 'pytest', '-ra', '-q', '-p', 'no:cacheprovider', '--timeout=900',
                '--continue-on-collection-errors', '--junitxml=' + x], cwd=repo, env=env,
               stdout=subprocess.DEVNULL, stderr=subprocess.DEVNULL)
passed = set()
for tc in ET.parse(x).getroot().iter('testcase'):
    if not any(c.tag in ('failure', 'error', 'skipped') for c in tc):
        passed.add('%s::%s' % (tc.get('classname'), tc.get('name')))
os.unlink(x)
missing = [t for t in base['stable_pass'] if t not in passed]
print('passed %d; baseline %d; baseline tests no longer passing: %d' % (len(passed), len(base['stable_pass']), len(missing)))
for m in missing: print('  MISSING', m)
sys.exit(1 if missing else 0)
