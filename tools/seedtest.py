#!/usr/bin/env python3
"""Confirm a seeded change and run the checks against it.

usage: tools/seedtest.py <candidate_dir> [--tier quick|thorough] [--props C04,C15]
  candidate_dir holds patch.diff, demo.py, meta.json (as written by a sub-agent).
Steps: (1) scratch worktree of /repo HEAD under /tmp: demo passes clean, fails patched, pinned suite unchanged;
       (2) git -C /repo apply; run ./check for the property (and any extra); git -C /repo checkout -- . ;
       (3) record under /verif/seeded/<id>/ .
"""
import json, os, re, shutil, subprocess, sys, time
VERIF = os.path.dirname(os.path.dirname(os.path.abspath(__file__)))
cand = os.path.abspath(sys.argv[1])
tier = 'quick'
props = None
args = sys.argv[2:]
while args:
    a = args.pop(0)
    if a == '--tier': tier = args.pop(0)
    elif a == '--props': props = args.pop(0).split(',')
meta = json.load(open(os.path.join(cand, 'meta.json')))
prop = meta['property']
props = props or [prop]
rnd = [x for x in cand.split('/') if x.startswith('r') and x[1:].isdigit()]
sid = '%s-%s%s' % (prop, (rnd[0] + '-') if rnd else '', os.path.basename(cand.rstrip('/')))
patch = os.path.join(cand, 'patch.diff')
wt = '/tmp/wt/confirm_%s' % sid
def sh(cmd, **kw):
    return subprocess.run(cmd, shell=True, capture_output=True, text=True, **kw)
res = {'id': sid, 'property': prop, 'what_changed': meta.get('what_changed'), 'needs_to_manifest': meta.get('needs_to_manifest'),
       'files': meta.get('files'), 'ran': []}
sh('git -C /repo worktree remove --force %s' % wt)
r = sh('git -C /repo worktree add --detach %s HEAD' % wt)
try:
    shutil.copy(os.path.join(cand, 'demo.py'), os.path.join(wt, 'demo.py'))
    r = sh('git -C %s apply --check %s' % (wt, patch))
    if r.returncode:
        r3 = sh('git -C %s apply --3way %s' % (wt, patch))
        res['ran'].append('git apply --check failed on current HEAD (%s); 3way: rc=%d' % (r.stderr.strip()[:200], r3.returncode))
        if r3.returncode:
            res['confirmed'] = False
            print(json.dumps(res, indent=1)); sys.exit(2)
        # regenerate the patch against current HEAD
        newp = sh('git -C %s diff HEAD -- tdda' % wt).stdout      # (--3way stages what it applies)
        sh('git -C %s reset -q --hard HEAD' % wt)
        patch = os.path.join('/tmp', 'rebased_%s.diff' % sid)
        open(patch, 'w').write(newp)
    d0 = sh('cd %s && /venv/bin/python demo.py' % wt)
    res['ran'].append('clean tree: demo.py exit %d' % d0.returncode)
    sh('git -C %s apply %s' % (wt, patch))
    d1 = sh('cd %s && /venv/bin/python demo.py' % wt)
    res['ran'].append('patched: demo.py exit %d (%s)' % (d1.returncode, (d1.stderr.strip().splitlines() or [''])[-1][:200]))
    b = sh('python3 %s/tools/baseline.py %s' % (VERIF, wt))
    res['ran'].append('patched: pinned suite: %s' % b.stdout.strip().splitlines()[0])
    res['confirmed'] = (d0.returncode == 0 and d1.returncode != 0 and b.returncode == 0)
finally:
    sh('git -C /repo worktree remove --force %s' % wt)
if not res['confirmed']:
    print(json.dumps(res, indent=1)); sys.exit(2)
# run the checks against a scratch worktree with the patch applied (VERIF_REPO points the engine at it, evidence
# and replays go to a scratch directory, so that /repo and /verif/evidence are left alone)
wt2 = '/tmp/wt/run_%s' % sid
sh('git -C /repo worktree remove --force %s' % wt2)
sh('git -C /repo worktree add --detach %s HEAD' % wt2)
a = sh('git -C %s apply %s' % (wt2, patch))
assert a.returncode == 0, a.stderr
res['checks'] = {}
scratch = '/tmp/wt/scratch_%s' % sid
os.makedirs(scratch, exist_ok=True)
try:
    for p in props:
        t0 = time.time()
        c = sh('cd %s && VERIF_REPO=%s VERIF_EVIDENCE_DIR=%s/evidence VERIF_WORK_DIR=%s/work ./check %s %s'
               % (VERIF, wt2, scratch, scratch, p, tier))
        viol = [l for l in c.stdout.splitlines() if l.startswith('VIOLATION') or l.startswith('counterexample') or l.startswith('HARNESS-ERROR')]
        res['checks'][p] = {'tier': tier, 'exit': c.returncode, 'wall_s': round(time.time() - t0), 'lines': [v[:300] for v in viol[:8]]}
finally:
    sh('git -C /repo worktree remove --force %s' % wt2)
    shutil.rmtree(scratch, ignore_errors=True)
res['detected'] = any(v['exit'] == 1 for v in res['checks'].values())
out = os.path.join(VERIF, 'seeded', sid)
os.makedirs(out, exist_ok=True)
shutil.copy(patch, os.path.join(out, 'patch.diff'))
shutil.copy(os.path.join(cand, 'demo.py'), os.path.join(out, 'demo.py'))
json.dump(res, open(os.path.join(out, 'meta.json'), 'w'), indent=1)
print(json.dumps(res, indent=1))
