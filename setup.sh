#!/bin/sh
# Build the overlay venv used by every check: /venv's python + its site-packages
# + /repo on the path + crosshair-tool/z3-solver from the offline wheelhouse.
# Idempotent; offline.
set -e
V=/verif/.venv
if [ -x "$V/bin/crosshair" ] && "$V/bin/python" -c "import crosshair, z3, pandas" 2>/dev/null; then
    exit 0
fi
rm -rf "$V"
/venv/bin/python -m venv "$V"
SP=$("$V/bin/python" -c "import sysconfig; print(sysconfig.get_paths()['purelib'])")
cat > "$SP/_base.pth" <<PTH
import site; site.addsitedir('/venv/lib/python3.12/site-packages')
PTH
PIP_NO_INDEX=1 "$V/bin/pip" install -q --no-index --find-links /opt/veriftools/wheels crosshair-tool z3-solver >/dev/null
"$V/bin/python" -c "import crosshair, z3, pandas; print('overlay venv ready', z3.get_version_string())"
